"""C20 - signature collections index like NumPy sequences and compare by content.

X1 index dispatch exhaustive (every branch ends in return/raise; right handler under the right test)
X2 no in-place write through anything that may alias a caller's index (may-alias forward analysis over the CFG)
X3 _check_index arithmetic and bounds   X4 contiguous-slice / element / length arithmetic (affine)
X5 sub-collections keep kmerspec and dtype   X6 SignatureList mutators delegate to the list; nobody else mutates
X7 equality = kmerspec equal and all signatures equal
"""
import ast

from ..affine import Aff, sym
from ..astutil import (u, atoms, guard_map, path_atoms, stmts_in, calls_in, callee, callee_attr, reaching_def, def_value,
                       PARAM, AMBIGUOUS, get_arg, get_kw, is_none, is_const, assigns_to, block_path, raised_name, always_exits)
from ..cfg import CFG, solve
from ..report import Undecided

IDX = 'gambit.util.indexing.AdvancedIndexingMixin'
BASE = 'gambit.sigs.base'

ALIAS, FRESH = 'alias', 'fresh'
FRESH_CALLS = {'np.empty', 'np.zeros', 'np.ones', 'np.arange', 'np.flatnonzero', 'np.where', 'np.array', 'np.copy', 'np.cumsum', 'np.diff',
               'np.fromiter', 'np.concatenate', 'list', 'sorted', 'len', 'int', 'range', 'np.nonzero', 'np.full'}
ALIAS_CALLS = {'np.asarray', 'np.asanyarray', 'np.ascontiguousarray', 'np.atleast_1d', 'np.ravel', 'np.squeeze', 'memoryview', 'np.frombuffer'}
ALIAS_METHODS = {'view', 'reshape', 'ravel', 'squeeze', 'transpose', '__array__'}
FRESH_METHODS = {'copy', 'astype_copy', 'tolist', 'any', 'all', 'sum', 'nonzero', 'flatten'}
INPLACE_METHODS = {'sort', 'fill', 'resize', 'put', 'itemset', 'partition', 'byteswap_inplace', 'setfield'}
INPLACE_FUNCS = {'np.put', 'np.copyto', 'np.place', 'np.putmask', 'np.fill_diagonal'}


def _root(e):
    while isinstance(e, (ast.Subscript, ast.Attribute)):
        e = e.value
    return e.id if isinstance(e, ast.Name) else None


def alias_analysis(ctx, fi, rule='X2'):
    """Forward may-alias analysis: which locals may share memory with a (non-self) parameter at each in-place write."""
    rep = ctx.rep
    fn = fi.node
    cfg = CFG(fn)
    params = [p for p in fi.params() if p not in ('self', 'cls')]
    init = tuple(sorted((p, frozenset([ALIAS])) for p in params))

    def val(e, st):
        if isinstance(e, ast.Name):
            return st.get(e.id, frozenset([FRESH]))
        if isinstance(e, ast.Constant):
            return frozenset([FRESH])
        if isinstance(e, ast.Subscript):
            return val(e.value, st)          # basic indexing gives a view; advanced gives a copy: may-alias
        if isinstance(e, ast.Attribute):
            if e.attr in ('T', 'real', 'imag', 'flat', 'base', 'data'):
                return val(e.value, st)
            return frozenset([FRESH]) if _root(e) in ('self', 'cls', 'np') else val(e.value, st)
        if isinstance(e, ast.IfExp):
            return val(e.body, st) | val(e.orelse, st)
        if isinstance(e, (ast.BinOp, ast.UnaryOp, ast.Compare, ast.BoolOp, ast.List, ast.Tuple, ast.ListComp, ast.Dict, ast.Set, ast.JoinedStr, ast.GeneratorExp)):
            return frozenset([FRESH])
        if isinstance(e, ast.Call):
            f = u(e.func).replace('numpy.', 'np.')
            if f in ALIAS_CALLS:
                out = frozenset()
                for a in e.args[:1]:
                    out |= val(a, st)
                return out or frozenset([FRESH])
            if f == 'np.array':
                cp = get_kw(e, 'copy')
                if cp is not None and not is_const(cp, True):
                    return val(e.args[0], st) if e.args else frozenset([FRESH])
                return frozenset([FRESH])
            if f in FRESH_CALLS:
                return frozenset([FRESH])
            if isinstance(e.func, ast.Attribute):
                if e.func.attr in ALIAS_METHODS:
                    return val(e.func.value, st)
                if e.func.attr == 'astype':
                    cp = get_kw(e, 'copy')
                    if cp is not None and not is_const(cp, True):
                        return val(e.func.value, st)
                    return frozenset([FRESH])
                if e.func.attr in FRESH_METHODS:
                    return frozenset([FRESH])
                if _root(e.func) in ('self', 'cls', 'np', 'SignatureArray', 'SignatureList'):
                    return frozenset([FRESH])
                # unknown method of a possibly-aliasing object: may return a view of it
                return val(e.func.value, st)
            return frozenset([FRESH])
        return frozenset([FRESH])

    def assign(st, target, v):
        if isinstance(target, ast.Name):
            st[target.id] = v
        elif isinstance(target, (ast.Tuple, ast.List)):
            for t in target.elts:
                assign(st, t, v)

    def transfer(n, state):
        st = dict(state)
        s = n.stmt
        if n.kind == 'stmt':
            if isinstance(s, ast.Assign):
                v = val(s.value, st)
                for t in s.targets:
                    assign(st, t, v)
            elif isinstance(s, ast.AnnAssign) and s.value is not None:
                assign(st, s.target, val(s.value, st))
        elif n.kind == 'for':
            assign(st, s.target, val(s.iter, st))
        elif n.kind == 'with':
            for it in s.items:
                if it.optional_vars is not None:
                    assign(st, it.optional_vars, val(it.context_expr, st))
        return tuple(sorted(st.items()))

    def refine(n, lab, state):
        return state

    def join(a, b):
        da, db = dict(a), dict(b)
        return tuple(sorted((k, da.get(k, frozenset([FRESH])) | db.get(k, frozenset([FRESH]))) for k in set(da) | set(db)))

    IN = solve(cfg, init, transfer, refine, join)
    writes = 0
    for n in cfg.nodes:
        if n.id not in IN or n.stmt is None:
            continue
        st = dict(IN[n.id])
        targets = []
        s = n.stmt
        nodes = []
        if n.kind in ('stmt', 'return', 'raise'):
            nodes = list(ast.walk(s))
        elif n.kind == 'cond':
            nodes = list(ast.walk(s))
        elif n.kind == 'for':
            nodes = list(ast.walk(s.iter))
        for x in nodes:
            if isinstance(x, ast.Call):
                f = u(x.func).replace('numpy.', 'np.')
                out = get_kw(x, 'out')
                if out is not None and not is_none(out):
                    targets.append((out, f'out= of {f}'))
                if f in INPLACE_FUNCS and x.args:
                    targets.append((x.args[0], f'destination of {f}'))
                if isinstance(x.func, ast.Attribute) and x.func.attr in INPLACE_METHODS:
                    targets.append((x.func.value, f'.{x.func.attr}()'))
        if n.kind == 'stmt' and isinstance(s, ast.AugAssign):
            targets.append((s.target, 'augmented assignment'))
        if n.kind == 'stmt' and isinstance(s, ast.Assign):
            for t in s.targets:
                if isinstance(t, ast.Subscript):
                    targets.append((t, 'subscript store'))
        for tgt, how in targets:
            root = _root(tgt)
            if root in (None, 'self', 'cls'):
                continue
            if isinstance(tgt, ast.Name) and how == 'augmented assignment' and st.get(root, frozenset([FRESH])) == frozenset([FRESH]):
                writes += 1
                rep.add(rule, fi.site(s), f'in-place write ({how}) targets memory that cannot alias a caller argument', True, found=f'{root}: fresh', stmt=s)
                continue
            v = st.get(root, frozenset([FRESH]))
            writes += 1
            rep.add(rule, fi.site(s), f'in-place write ({how}) targets memory that cannot alias a caller argument', ALIAS not in v,
                    expected=f'{root} is a fresh copy on every path', found=f'{root} may alias a parameter (np.asarray / views share memory; an identity test does not rule that out)' if ALIAS in v else f'{root}: fresh',
                    stmt=s)
    return writes


CONTROL_BAD = """
def control(self, index):
    input_index = index
    index = np.asarray(index)
    isneg = index < 0
    if isneg.any():
        if index is input_index:
            index = index.copy()
        np.add(index, len(self), out=index, where=isneg)
    return index
"""
CONTROL_GOOD = """
def control(self, index):
    index = np.asarray(index)
    isneg = index < 0
    if isneg.any():
        index = index.copy()
        np.add(index, len(self), out=index, where=isneg)
    return index
"""


def _ret_atoms(gm, r):
    return path_atoms(gm[r])


def check_dispatch(ctx):
    rep, m = ctx.rep, ctx.model
    fi = m.func(f'{IDX}.__getitem__')
    rep.functions.add(fi.qualname)
    fn = fi.node
    gm = guard_map(fn)
    ip = fi.params()[1]
    rets = [s for s in stmts_in(fn.body) if isinstance(s, ast.Return)]
    raises = [s for s in stmts_in(fn.body) if isinstance(s, ast.Raise)]

    def ret_calling(name):
        return [r for r in rets if isinstance(r.value, ast.Call) and u(r.value.func) == f'self.{name}']

    def isinst(types):
        return [('true', f'isinstance({ip}, {t})') for t in types]
    # int
    r = ret_calling('_getitem_int')
    at = _ret_atoms(gm, r[0]) if r else set()
    okint = len(r) == 1 and any(a in at for a in isinst(['(int, np.integer)', '(np.integer, int)'])) and u(r[0].value.args[0]) == f'self._check_index({ip})'
    rep.add('X1', fi.site(r[0] if r else fn), 'an integer index (Python or NumPy) is bounds-checked, normalised and delegated', okint, expected=f'_getitem_int(_check_index({ip})) under isinstance({ip}, (int, np.integer))',
            found=(u(r[0].value) if r else None, sorted(at)), stmt='int dispatch')
    # slice
    r = ret_calling('_getitem_slice')
    at = _ret_atoms(gm, r[0]) if r else set()
    oks = len(r) == 1 and ('true', f'isinstance({ip}, slice)') in at and ('ne', '0', f'{ip}.step') in at and [u(a) for a in r[0].value.args] == [ip]
    rep.add('X1', fi.site(r[0] if r else fn), 'a slice with non-zero step is delegated unchanged', oks, expected=f'_getitem_slice({ip}) under isinstance(slice) and step != 0', found=(u(r[0].value) if r else None, sorted(at)),
            stmt='slice dispatch')
    zr = [x for x in raises if ('eq', '0', f'{ip}.step') in path_atoms(gm[x])]
    rep.add('X1', fi.site(zr[0] if zr else fn), 'a zero step raises ValueError (like a list)', len(zr) == 1 and raised_name(zr[0]) == 'ValueError', expected='raise ValueError', found=[raised_name(x) for x in zr],
            stmt='zero step')
    tr = [x for x in raises if raised_name(x) == 'TypeError']
    okt = False
    for x in tr:
        bp = block_path(fn, x)
        loop = next((o for (_, _, o) in bp if isinstance(o, ast.For)), None)
        if loop is not None and sorted(u(e) for e in getattr(loop.iter, 'elts', [])) == sorted([f'{ip}.start', f'{ip}.stop', f'{ip}.step']):
            at = path_atoms(gm[x])
            lv = u(loop.target)
            okt = ('isnot', 'None', lv) in at and any(a[0] == 'false' and a[1].startswith(f'isinstance({lv}, ') and 'int' in a[1] for a in at)
    rep.add('X1', fi.site(tr[0] if tr else fn), 'non-integer slice components raise TypeError', okt, expected='raise TypeError for each of start/stop/step that is neither None nor an integer', found=[u(x)[:50] for x in tr],
            stmt='slice component types')
    # arrays
    r = ret_calling('_getitem_bool_array')
    at = _ret_atoms(gm, r[0]) if r else set()
    okb = len(r) == 1 and ('eq', "'b'", f'{ip}.dtype.kind') in at and ('eq', f'len({ip})', 'len(self)') in at and ('eq', '1', f'{ip}.ndim') in at
    rep.add('X1', fi.site(r[0] if r else fn), 'a boolean mask of the right length and dimension is delegated', okb, expected="kind == 'b', ndim == 1, len(index) == len(self)", found=sorted(at), stmt='bool dispatch')
    r = ret_calling('_getitem_int_array')
    at = _ret_atoms(gm, r[0]) if r else set()
    oki = len(r) == 1 and any(a[0] == 'in' and a[1] == f'{ip}.dtype.kind' and a[2] in ("'iu'", "'ui'") for a in at) and ('eq', '1', f'{ip}.ndim') in at
    rep.add('X1', fi.site(r[0] if r else fn), 'an integer array of dimension one is delegated', oki, expected="kind in 'iu', ndim == 1", found=sorted(at), stmt='int-array dispatch')
    if r:
        # every element bounds-checked before the delegation
        loops = [s for s in stmts_in(fn.body) if isinstance(s, ast.For) and u(s.iter) == ip and s.lineno < r[0].lineno]
        okc = any(len(lp.body) == 1 and isinstance(lp.body[0], ast.Expr) and u(lp.body[0].value) == f'self._check_index({u(lp.target)})' and path_atoms(gm[lp]) <= at for lp in loops)
        rep.add('X1', fi.site(loops[0] if loops else r[0]), 'every element of an integer index array is bounds-checked before use', okc, expected=f'for i in {ip}: self._check_index(i)', found=[u(lp)[:60] for lp in loops],
                stmt='element bounds check')
    deleg = [r_ for r_ in rets if isinstance(r_.value, ast.Call) and u(r_.value.func) in ('self._getitem_int', 'self._getitem_slice', 'self._getitem_bool_array', 'self._getitem_int_array')]
    rep.account_returns('X1', fi, deleg, 'selection')
    ir = [x for x in raises if raised_name(x) == 'IndexError']
    conds = {frozenset(path_atoms(gm[x])) for x in ir}
    nd = any(('ne', '1', f'{ip}.ndim') in c for c in conds)
    ln = any(('ne', f'len({ip})', 'len(self)') in c for c in conds)
    rep.add('X1', fi.site(), 'multi-dimensional index arrays and masks of the wrong length raise IndexError', nd and ln, expected='ndim != 1 / length mismatch -> IndexError', found=[sorted(c) for c in conds], stmt='array shape errors')
    last = fn.body[-1]
    exhaustive = always_exits([last]) if isinstance(last, ast.If) else isinstance(last, (ast.Return, ast.Raise))
    rep.add('X1', fi.site(last), 'the dispatch is exhaustive: every path ends in a return or a raise (other dtypes raise IndexError)', exhaustive, expected='final else: raise IndexError', found=u(last)[:40], stmt='exhaustive')
    # empty-sequence special case keeps integer dtype
    emp = [s for s in stmts_in(fn.body) if isinstance(s, ast.Assign) and u(s.targets[0]) == ip and isinstance(s.value, ast.Call) and u(s.value.func) == 'np.empty']
    oke = len(emp) == 1 and ('eq', '0', f'len({ip})') in path_atoms(gm[emp[0]]) and u(get_arg(emp[0].value, 1, 'dtype')) == 'int'
    rep.add('X1', fi.site(emp[0] if emp else fn), 'an empty index sequence selects nothing (integer dtype forced)', oke, expected='np.empty(0, dtype=int) under len(index) == 0', found=[u(e) for e in emp], stmt='empty sequence')
    conv = [c for c in calls_in(fn) if u(c.func) in ('np.asarray', 'np.array')]
    okv = False
    for c in conv:
        st = next(s for s in stmts_in(fn.body) if any(x is c for x in ast.walk(s)) and isinstance(s, ast.Assign))
        bp = block_path(fn, st)
        tr_ = next((o for (_, _, o) in bp if isinstance(o, ast.Try)), None)
        okv = okv or (tr_ is not None and any(any(isinstance(x, ast.Raise) and raised_name(x) == 'IndexError' for x in h.body) for h in tr_.handlers))
    rep.add('X1', fi.site(conv[0] if conv else fn), 'an object that cannot be interpreted as an index array raises IndexError', okv, expected='np.asarray failure -> IndexError', found=[u(c) for c in conv], stmt='conversion error')
    # negative conversion adds len(self) exactly where negative
    adds = [c for c in calls_in(fn) if u(c.func) == 'np.add'] + [c for c in calls_in(fn) if u(c.func) == 'np.where']
    okn = False
    negname = None
    for c in adds:
        if u(c.func) == 'np.add':
            okn = okn or ([u(a) for a in c.args] == [ip, 'len(self)'] and isinstance(get_kw(c, 'where'), ast.Name))
            negname = u(get_kw(c, 'where')) if get_kw(c, 'where') is not None else negname
        else:
            okn = okn or (len(c.args) == 3 and isinstance(c.args[0], ast.Name) and u(c.args[1]) in (f'{ip} + len(self)', f'len(self) + {ip}') and u(c.args[2]) == ip)
            negname = u(c.args[0]) if c.args else negname
    isn = [s for s in stmts_in(fn.body) if isinstance(s, ast.Assign) and u(s.targets[0]) == negname]
    okn = okn and len(isn) == 1 and atoms(isn[0].value) == {('lt', ip, '0')}
    rep.add('X1', fi.site(adds[0] if adds else fn), 'negative entries are converted by adding len(self), others untouched', okn, expected='index + len(self) where index < 0', found=[u(c) for c in adds], stmt='negative conversion')


def check_alias(ctx):
    rep, m = ctx.rep, ctx.model
    total = 0
    fams = [f'{IDX}.__getitem__', f'{IDX}._getitem_slice', f'{IDX}._getitem_bool_array', f'{IDX}._check_index',
            f'{BASE}.ConcatenatedSignatureArray._getitem_slice', f'{BASE}.ConcatenatedSignatureArray._getitem_int_array',
            f'{BASE}.ConcatenatedSignatureArray._getitem_int', f'{BASE}.SignatureList._getitem_int_array', f'{BASE}.SignatureList._getitem_int',
            f'{BASE}.AnnotatedSignatures.__getitem__']
    for q in fams:
        fi = m.func(q)
        rep.functions.add(fi.qualname)
        total += alias_analysis(ctx, fi)
    # positive control: the rule must fire on the (repaired) defective shape and stay quiet on the copy-first shape
    from ..report import Report
    bad = m.snippet_func(CONTROL_BAD)
    good = m.snippet_func(CONTROL_GOOD)
    shadow = type(ctx)(m, Report('C20'), ctx.tier)
    alias_analysis(shadow, bad)
    fired = any(not o.ok for o in shadow.rep.obs)
    shadow2 = type(ctx)(m, Report('C20'), ctx.tier)
    alias_analysis(shadow2, good)
    quiet = all(o.ok for o in shadow2.rep.obs) and bool(shadow2.rep.obs)
    rep.require(fired and quiet, f'X2 positive control failed (fires on bad shape: {fired}, quiet on good shape: {quiet})')
    rep.info['x2_positive_control'] = dict(fires_on_identity_guarded_copy=fired, quiet_on_unconditional_copy=quiet)
    rep.info['inplace_write_sites'] = total


def check_arith(ctx):
    rep, m = ctx.rep, ctx.model
    # X3
    fi = m.func(f'{IDX}._check_index')
    rep.functions.add(fi.qualname)
    ip = fi.params()[1]
    gm = guard_map(fi.node)
    defs = [s for s in fi.node.body if isinstance(s, ast.Assign)]
    rets = [s for s in stmts_in(fi.node.body) if isinstance(s, ast.Return)]
    rep.require(len(rets) == 1, '_check_index: expected one return')
    rv = u(rets[0].value)
    conv = next((s.value for s in defs if u(s.targets[0]) == rv), None)
    okc = isinstance(conv, ast.IfExp) and atoms(conv.test) == {('lt', ip, '0')} and Aff.try_of(conv.body) == sym(ip).add(sym('len(self)')) and u(conv.orelse) == ip
    rep.add('X3', fi.site(defs[0] if defs else rets[0]), 'a negative index counts from the end: i + len(self) when i < 0', okc, expected=f'{ip} + len(self) if {ip} < 0 else {ip}', found=u(conv), stmt='negative index')
    at = path_atoms(gm[rets[0]])
    rep.add('X3', fi.site(rets[0]), 'the normalised index is returned only when 0 <= i2 < len(self)', at == {('le', '0', rv), ('lt', rv, 'len(self)')}, expected=f'0 <= {rv} < len(self)', found=sorted(at), stmt='bounds')
    rs = [s for s in stmts_in(fi.node.body) if isinstance(s, ast.Raise)]
    rep.add('X3', fi.site(rs[0] if rs else rets[0]), 'anything else raises IndexError', len(rs) == 1 and raised_name(rs[0]) == 'IndexError', expected='raise IndexError', found=[raised_name(r) for r in rs], stmt='out of range')
    # X4
    C = f'{BASE}.ConcatenatedSignatureArray'
    fl = m.func(f'{C}.__len__')
    body = [s for s in fl.node.body if isinstance(s, ast.Return)]
    rep.add('X4', fl.site(), 'len == len(bounds) - 1', len(body) == 1 and Aff.try_of(body[0].value) == sym('len(self.bounds)').plus(-1), expected='len(self.bounds) - 1', found=u(body[0].value) if body else None, stmt='length')
    fg = m.func(f'{C}._getitem_int')
    ip = fg.params()[1]
    body = [s for s in fg.node.body if isinstance(s, ast.Return)]
    v = body[0].value if body else None
    okg = isinstance(v, ast.Subscript) and u(v.value) == 'self.values' and isinstance(v.slice, ast.Slice) and v.slice.step is None \
        and u(v.slice.lower) == f'self.bounds[{ip}]' and isinstance(v.slice.upper, ast.Subscript) and u(v.slice.upper.value) == 'self.bounds' \
        and Aff.try_of(v.slice.upper.slice) == sym(ip).plus(1)
    rep.add('X4', fg.site(), 'element i is values[bounds[i] : bounds[i+1]]', okg, expected=f'self.values[self.bounds[{ip}]:self.bounds[{ip} + 1]]', found=u(v), stmt='element')
    fs = m.func(f'{C}.sizeof')
    rets = [s for s in fs.node.body if isinstance(s, ast.Return)]
    iv = None
    for s in fs.node.body:
        if isinstance(s, ast.Assign) and isinstance(s.value, ast.Call) and u(s.value.func) == 'self._check_index':
            iv = u(s.targets[0])
    v = rets[0].value if rets else None
    oks = iv is not None and isinstance(v, ast.BinOp) and isinstance(v.op, ast.Sub) and isinstance(v.left, ast.Subscript) and isinstance(v.right, ast.Subscript) \
        and u(v.left.value) == 'self.bounds' and u(v.right.value) == 'self.bounds' and Aff.try_of(v.left.slice) == sym(iv).plus(1) and Aff.try_of(v.right.slice) == sym(iv)
    rep.add('X4', fs.site(), 'sizeof(i) == bounds[i+1] - bounds[i] of the checked index', oks, expected='self.bounds[i + 1] - self.bounds[i]', found=u(v), stmt='sizeof')
    fsl = m.func(f'{C}._getitem_slice')
    rep.functions.update({fl.qualname, fg.qualname, fs.qualname, fsl.qualname})
    sp = fsl.params()[1]
    gms = guard_map(fsl.node)
    unpack = [s for s in fsl.node.body if isinstance(s, ast.Assign) and isinstance(s.targets[0], ast.Tuple)]
    oku = len(unpack) == 1 and u(unpack[0].value) == f'{sp}.indices(len(self))' and len(unpack[0].targets[0].elts) == 3
    rep.add('X4', fsl.site(unpack[0] if unpack else None), 'slice bounds are normalised by slice.indices(len(self))', oku, expected=f'start, stop, step = {sp}.indices(len(self))', found=[u(x) for x in unpack], stmt='slice normalisation')
    rep.require(oku, 'ConcatenatedSignatureArray._getitem_slice: slice normalisation not found')
    start, stop, step = (u(e) for e in unpack[0].targets[0].elts)
    rets = [s for s in stmts_in(fsl.node.body) if isinstance(s, ast.Return)]
    fast = [r for r in rets if isinstance(r.value, ast.Call) and u(r.value.func).endswith('from_arrays')]
    slow = [r for r in rets if r not in fast]
    rep.require(len(fast) == 1, 'ConcatenatedSignatureArray._getitem_slice: fast path not found')
    at = path_atoms(gms[fast[0]])
    rep.add('X4', fsl.site(fast[0]), 'the view fast path is taken only for a non-empty unit-step slice', at == {('eq', '1', step), ('lt', start, stop)}, expected=f'{step} == 1 and {stop} > {start}', found=sorted(at), stmt='fast path condition')
    oksl = len(slow) == 1 and u(slow[0].value) == f'super()._getitem_slice({sp})'
    rep.add('X4', fsl.site(slow[0] if slow else None), 'every other slice goes through the generic index-array path', oksl, expected=f'super()._getitem_slice({sp})', found=[u(r.value) for r in slow], stmt='slow path')
    args = fast[0].value.args

    def defn(e):
        if isinstance(e, ast.Name):
            d = reaching_def(fsl.node, e.id, fast[0])
            return def_value(d) if d not in (None, PARAM, AMBIGUOUS) else None
        return e
    vv, bv = defn(args[0]), defn(args[1])
    okv = isinstance(vv, ast.Subscript) and u(vv.value) == 'self.values' and isinstance(vv.slice, ast.Slice) and vv.slice.step is None \
        and u(vv.slice.lower) == f'self.bounds[{start}]' and u(vv.slice.upper) == f'self.bounds[{stop}]'
    rep.add('X4', fsl.site(fast[0]), 'values of the sub-collection are values[bounds[start] : bounds[stop]]', okv, expected=f'self.values[self.bounds[{start}]:self.bounds[{stop}]]', found=u(vv), stmt='slice values')
    okb = isinstance(bv, ast.BinOp) and isinstance(bv.op, ast.Sub) and isinstance(bv.left, ast.Subscript) and u(bv.left.value) == 'self.bounds' \
        and isinstance(bv.left.slice, ast.Slice) and bv.left.slice.step is None and u(bv.left.slice.lower) == start \
        and Aff.try_of(bv.left.slice.upper) == sym(stop).plus(1) and u(bv.right) == f'self.bounds[{start}]'
    rep.add('X4', fsl.site(fast[0]), 'bounds of the sub-collection are bounds[start : stop+1] - bounds[start]', okb, expected=f'self.bounds[{start}:{stop} + 1] - self.bounds[{start}]', found=u(bv), stmt='slice bounds')
    # generic paths
    g1 = m.func(f'{IDX}._getitem_slice')
    body = [s for s in g1.node.body if not (isinstance(s, ast.Expr) and isinstance(s.value, ast.Constant))]
    okg = len(body) == 2 and isinstance(body[0], ast.Assign) and u(body[0].value) == f'{g1.params()[1]}.indices(len(self))' and isinstance(body[1], ast.Return) \
        and u(body[1].value) == 'self._getitem_int_array(np.arange({}))'.format(', '.join(u(e) for e in body[0].targets[0].elts))
    rep.add('X4', g1.site(), 'generic slice = the positions range(*slice.indices(len)) as an index array', okg, expected='self._getitem_int_array(np.arange(start, stop, step))', found=[u(s) for s in body], stmt='generic slice')
    g2 = m.func(f'{IDX}._getitem_bool_array')
    body = [s for s in g2.node.body if isinstance(s, ast.Return)]
    rep.add('X4', g2.site(), 'a mask selects the positions of its True entries, ascending', len(body) == 1 and u(body[0].value) == f'self._getitem_int_array(np.flatnonzero({g2.params()[1]}))', expected='np.flatnonzero(mask)',
            found=[u(b.value) for b in body], stmt='mask')
    rep.functions.update({g1.qualname, g2.qualname})


def check_subcollections(ctx):
    rep, m = ctx.rep, ctx.model
    C = f'{BASE}.ConcatenatedSignatureArray'
    fsl = m.func(f'{C}._getitem_slice')
    fast = [c for c in calls_in(fsl.node) if u(c.func).endswith('from_arrays')]
    rep.add('X5', fsl.site(fast[0] if fast else None), 'a contiguous slice keeps the k-mer parameters (dtype follows the sliced values)', len(fast) == 1 and u(get_arg(fast[0], 2, 'kmerspec')) == 'self.kmerspec',
            expected='from_arrays(values, bounds, self.kmerspec)', found=[u(c) for c in fast], stmt='slice kmerspec')
    fia = m.func(f'{C}._getitem_int_array')
    rep.functions.add(fia.qualname)
    ip = fia.params()[1]
    un = [c for c in calls_in(fia.node) if u(c.func).endswith('uninitialized')]
    oku = len(un) == 1 and u(get_arg(un[0], 1, 'kmerspec')) == 'self.kmerspec' and u(get_arg(un[0], 2, 'dtype')) in ('self.values.dtype', 'self.dtype')
    rep.add('X5', fia.site(un[0] if un else None), 'an index-array selection keeps k-mer parameters and integer type', oku, expected='uninitialized(sizes, self.kmerspec, dtype=self.values.dtype)', found=[u(c) for c in un], stmt='int-array kmerspec/dtype')
    if un:
        sizes = get_arg(un[0], 0, 'lengths')
        oks = isinstance(sizes, ast.ListComp) and u(sizes.generators[0].iter) == ip and u(sizes.elt) == f'self.sizeof({u(sizes.generators[0].target)})'
        rep.add('X5', fia.site(un[0]), 'slot k of the result is sized for the k-th requested signature', oks, expected=f'[self.sizeof(i) for i in {ip}]', found=u(sizes), stmt='result sizes')
    loops = [s for s in fia.node.body if isinstance(s, ast.For)]
    okl = False
    if len(loops) == 1 and isinstance(loops[0].iter, ast.Call) and u(loops[0].iter.func) == 'enumerate' and [u(a) for a in loops[0].iter.args] == [ip]:
        k, idx = (u(e) for e in loops[0].target.elts)
        cps = [c for c in calls_in(loops[0]) if u(c.func) == 'np.copyto']
        okl = len(cps) == 1 and u(cps[0].args[0]).endswith(f'[{k}]') and u(cps[0].args[1]) == f'self._getitem_int({idx})'
    rep.add('X5', fia.site(loops[0] if loops else None), 'slot k receives the signature at the k-th requested index (order and repeats preserved)', okl, expected='for k, idx in enumerate(indices): copyto(out[k], self._getitem_int(idx))',
            found=[u(l)[:80] for l in loops], stmt='fill order')
    fia_rets = [s for s in stmts_in(fia.node.body) if isinstance(s, ast.Return)]
    out_name = u(next((s.targets[0] for s in fia.node.body if isinstance(s, ast.Assign) and un and s.value is un[0]), None)) if un else None
    rep.account_returns('X5', fia, [r for r in fia_rets if u(r.value) == out_name and r is fia.node.body[-1]], 'index-array selection')
    rep.account_returns('X4', fsl, [s for s in stmts_in(fsl.node.body) if isinstance(s, ast.Return) and (any(x in fast for x in ast.walk(s)) or u(s.value).startswith('super()._getitem_slice('))], 'slice selection')
    fl = m.func(f'{BASE}.SignatureList._getitem_int_array')
    rep.functions.add(fl.qualname)
    ipl = fl.params()[1]
    rets = [s for s in fl.node.body if isinstance(s, ast.Return)]
    v = rets[0].value if rets else None
    okv = isinstance(v, ast.Call) and u(v.func) == 'SignatureList' and u(get_arg(v, 1, 'kmerspec')) == 'self.kmerspec' and u(get_arg(v, 2, 'dtype')) == 'self.dtype'
    rep.account_returns('X5', fl, rets[:1], 'list-backed selection')
    rep.add('X5', fl.site(rets[0] if rets else None), 'a list-backed selection keeps k-mer parameters and integer type', okv, expected='SignatureList([...], self.kmerspec, self.dtype)', found=u(v), stmt='list kmerspec/dtype')
    if isinstance(v, ast.Call) and v.args:
        lc = v.args[0]
        okc = isinstance(lc, ast.ListComp) and u(lc.generators[0].iter) == ipl and not lc.generators[0].ifs and u(lc.elt) == f'self._list[{u(lc.generators[0].target)}]'
        rep.add('X5', fl.site(rets[0]), 'the selected signatures are taken in index order', okc, expected=f'[self._list[i] for i in {ipl}]', found=u(lc), stmt='list selection')
    fli = m.func(f'{BASE}.SignatureList._getitem_int')
    rets = [s for s in fli.node.body if isinstance(s, ast.Return)]
    rep.add('X5', fli.site(), 'a list-backed element is the stored array', len(rets) == 1 and u(rets[0].value) == f'self._list[{fli.params()[1]}]', expected='self._list[i]', found=[u(r.value) for r in rets], stmt='list element')
    fa = m.func(f'{BASE}.AnnotatedSignatures.__getitem__')
    rets = [s for s in fa.node.body if isinstance(s, ast.Return)]
    rep.add('X5', fa.site(), 'the annotated wrapper indexes its wrapped collection', len(rets) == 1 and u(rets[0].value) == f'self.signatures[{fa.params()[1]}]', expected='self.signatures[index]', found=[u(r.value) for r in rets], stmt='wrapper')
    # from_arrays stores what it is given
    ff = m.func(f'{BASE}.SignatureArray._init_from_arrays')
    sets = {u(s.targets[0]): u(s.value) for s in ff.node.body if isinstance(s, ast.Assign)}
    p = ff.params()
    rep.add('X5', ff.site(), 'from_arrays stores values, bounds and kmerspec as given', sets == {'self.values': p[1], 'self.bounds': p[2], 'self.kmerspec': p[3]}, expected='self.values/bounds/kmerspec', found=sets, stmt='from_arrays')
    rep.functions.update({fli.qualname, fa.qualname, ff.qualname})


def check_mutators(ctx):
    rep, m = ctx.rep, ctx.model
    L = m.cls(f'{BASE}.SignatureList')
    want = {'__setitem__': ('Assign', 'self._list[{0}] = {1}'), '__delitem__': ('Delete', 'del self._list[{0}]'), 'insert': ('Expr', 'self._list.insert({0}, {1})'),
            '__len__': ('Return', 'return len(self._list)'), '__iter__': ('Return', 'return iter(self._list)')}
    for name, (kind, tmpl) in want.items():
        f = L.methods.get(name)
        rep.require(f is not None, f'SignatureList.{name} missing')
        rep.functions.add(f.qualname)
        body = [s for s in f.node.body if not (isinstance(s, ast.Expr) and isinstance(s.value, ast.Constant))]
        exp = tmpl.format(*f.params()[1:])
        rep.add('X6', f.site(), f'SignatureList.{name} forwards to the same list operation with the arguments in order', len(body) == 1 and u(body[0]) == exp, expected=exp, found=[u(s) for s in body], stmt=name)
    fam = [c for c in m.classes.values() if f'{BASE}.AbstractSignatureArray' in m.mro(c.qualname)]
    rep.floor('X6', 'classes in the signature-collection family', len(fam), 5)
    muts = []
    for c in fam:
        if c.qualname == L.qualname:
            continue
        for name in ('__setitem__', '__delitem__', 'insert', 'append', 'extend', 'pop', 'remove', '__iadd__', 'clear', 'reverse', 'sort'):
            if name in c.methods:
                muts.append(f'{c.qualname}.{name}')
    rep.add('X6', L.site(), 'no other collection class defines a mutator (they are immutable sequences)', not muts, expected='none', found=muts, stmt='mutators elsewhere')


def check_equality(ctx):
    rep, m = ctx.rep, ctx.model
    fe = m.func(f'{BASE}.AbstractSignatureArray.__eq__')
    rep.functions.add(fe.qualname)
    op = fe.params()[1]
    gm = guard_map(fe.node)
    rets = [s for s in stmts_in(fe.node.body) if isinstance(s, ast.Return)]
    eqr = [r for r in rets if any(a[0] == 'true' and a[1].startswith(f'isinstance({op}') for a in path_atoms(gm[r]))]
    oke = False
    if len(eqr) == 1 and isinstance(eqr[0].value, ast.BoolOp) and isinstance(eqr[0].value.op, ast.And):
        parts = {u(v) for v in eqr[0].value.values}
        oke = parts == {f'self.kmerspec == {op}.kmerspec', f'sigarray_eq(self, {op})'} or parts == {f'{op}.kmerspec == self.kmerspec', f'sigarray_eq(self, {op})'}
    rep.add('X7', fe.site(eqr[0] if eqr else None), 'collections are equal exactly when k-mer parameters and all signatures are equal', oke, expected=f'self.kmerspec == {op}.kmerspec and sigarray_eq(self, {op})',
            found=[u(r.value) for r in eqr], stmt='equality')
    ni = [r for r in rets if r not in eqr]
    rep.add('X7', fe.site(ni[0] if ni else None), 'comparison with anything else is NotImplemented', len(ni) == 1 and u(ni[0].value) == 'NotImplemented', expected='NotImplemented', found=[u(r.value) for r in ni], stmt='not implemented')
    fs = m.func(f'{BASE}.sigarray_eq')
    rep.functions.add(fs.qualname)
    a1, a2 = fs.params()[:2]
    rets = [s for s in fs.node.body if isinstance(s, ast.Return)]
    v = rets[0].value if rets else None
    oks = isinstance(v, ast.BoolOp) and isinstance(v.op, ast.And) and {u(x) for x in v.values} == {f'len({a1}) == len({a2})', f'all(map(np.array_equal, {a1}, {a2}))'} \
        and u(v.values[0]) == f'len({a1}) == len({a2})'
    rep.add('X7', fs.site(), 'sequence equality: equal lengths first, then every signature array equal', oks, expected=f'len({a1}) == len({a2}) and all(map(np.array_equal, {a1}, {a2}))', found=u(v), stmt='sigarray_eq')
    ks = m.cls('gambit.kmers.KmerSpec')
    eqf = {name: get_kw(v, 'eq') for name, v in ks.class_attrs.items() if isinstance(v, ast.Call) and u(v.func) == 'attrib'}
    compared = sorted(n for n, e in eqf.items() if e is None or not is_const(e, False))
    rep.add('X7', ks.site(), 'k-mer parameters compare by (k, prefix)', compared == ['k', 'prefix'], expected=['k', 'prefix'], found=compared, stmt='KmerSpec eq fields')


def check(ctx):
    rep = ctx.rep
    rep.rule('X1', 'AdvancedIndexingMixin.__getitem__: each handler under its test; exhaustive; errors')
    rep.rule('X2', 'may-alias forward analysis over the CFG: no in-place write to memory that may alias a parameter (np.asarray / views alias; copy()/arithmetic are fresh)')
    rep.rule('X3', '_check_index: negative conversion and 0 <= i2 < len(self)')
    rep.rule('X4', 'element / length / contiguous-slice arithmetic as affine forms; generic slice and mask paths')
    rep.rule('X5', 'sub-collections keep kmerspec and dtype; selection order preserved')
    rep.rule('X6', 'SignatureList mutators delegate to the list; no other class mutates')
    rep.rule('X7', 'equality = kmerspec equal and sigarray_eq; KmerSpec compares (k, prefix)')
    rep.trusted += ['slice.indices, np.arange, np.flatnonzero, np.array_equal', 'np.asarray returns a view for array.array / memoryview / __array__ providers; ndarray.copy() is fresh']
    check_dispatch(ctx)
    check_alias(ctx)
    check_arith(ctx)
    check_subcollections(ctx)
    check_mutators(ctx)
    check_equality(ctx)


from ..variants import V  # noqa: E402

_I = 'src/gambit/util/indexing.py'
_B = 'src/gambit/sigs/base.py'
VARIANTS = [
    V('copy only on identity (the repaired defect)', 'B', _I, "\t\t\t\tindex = index.copy()\n", "\t\t\t\tif index is input_index:\n\t\t\t\t\tindex = index.copy()\n", 'X2',
      also=[(_I, "\tdef __getitem__(self, index):\n", "\tdef __getitem__(self, index):\n\t\tinput_index = index\n")]),
    V('copy removed', 'B', _I, "\t\t\t\tindex = index.copy()\n", "", 'X2'),
    V('bounds slice stop not +1', 'B', _B, "bounds = self.bounds[start:(stop + 1)] - self.bounds[start]", "bounds = self.bounds[start:stop] - self.bounds[start]", 'X4'),
    V('bounds not rebased', 'B', _B, "bounds = self.bounds[start:(stop + 1)] - self.bounds[start]", "bounds = self.bounds[start:(stop + 1)]", 'X4'),
    V('_check_index upper bound inclusive', 'B', _I, "if not 0 <= i2 < len(self):", "if not 0 <= i2 <= len(self):", 'X3'),
    V('_check_index no negative conversion', 'B', _I, "i2 = i + len(self) if i < 0 else i", "i2 = i", 'X3'),
    V('SignatureList selection drops kmerspec', 'B', _B, "return SignatureList([self._list[i] for i in indices], self.kmerspec, self.dtype)", "return SignatureList([self._list[i] for i in indices], None, self.dtype)", 'X5'),
    V('int-array selection drops dtype', 'B', _B, "self.kmerspec, dtype=self.values.dtype)", "self.kmerspec)", 'X5'),
    V('__eq__ ignores kmerspec', 'B', _B, "return self.kmerspec == other.kmerspec and sigarray_eq(self, other)", "return sigarray_eq(self, other)", 'X7'),
    V('sigarray_eq ignores length', 'B', _B, "return len(a1) == len(a2) and all(map(np.array_equal, a1, a2))", "return all(map(np.array_equal, a1, a2))", 'X7'),
    V('element bounds check dropped', 'B', _I, "\t\t\tfor i in index:\n\t\t\t\tself._check_index(i)\n", "", 'X1'),
    V('zero step accepted', 'B', _I, "\t\t\tif index.step == 0:\n\t\t\t\traise ValueError('Slice step cannot be zero')\n", "", 'X1'),
    V('insert/setitem crossed', 'B', _B, "\t\tself._list.insert(i, sig)", "\t\tself._list[i] = sig", 'X6'),
    V('fast path taken for empty slices', 'B', _B, "if step != 1 or stop <= start:", "if step != 1:", 'X4'),
    V('fill writes slot idx instead of k', 'B', _B, "np.copyto(out[i], self._getitem_int(idx), casting='unsafe')", "np.copyto(out[idx], self._getitem_int(idx), casting='unsafe')", 'X5'),
    V('mask length not checked', 'B', _I, "\t\t\tif len(index) != len(self):\n\t\t\t\traise IndexError('Length of boolean index array does not match length of sequence.')\n", "", 'X1'),
    V('E: i2 conversion as statement order', 'E', _I, "i2 = i + len(self) if i < 0 else i", "i2 = len(self) + i if i < 0 else i"),
    V('E: stop + 1 commuted', 'E', _B, "self.bounds[start:(stop + 1)]", "self.bounds[start:1 + stop]"),
    V('E: out-of-place conversion', 'E', _I, "\t\t\t\tindex = index.copy()\n\t\t\t\tnp.add(index, len(self), out=index, where=isneg)\n", "\t\t\t\tindex = np.where(isneg, index + len(self), index)\n"),
]
