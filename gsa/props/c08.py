"""C08 - query output rows: one per input, in order, correctly labelled, context-free.

Alignment-provenance dataflow from the click parameters to results.items:
A1 ids and files of get_sequence_files are order-preserving images of one list   A2 label derivation
A3 query command / query_parse: labels, files, signatures and inputs aligned (zip_strict)
A4 query(): length check; row i of the matrix classified for input i   A5 signature-file channel
A6 independence: the per-row computation writes no state outside its own locals (effect analysis over the call graph)
A7 progress wrapper is transparent; `cores` only reaches thread / worker sinks   A8 exporters iterate items in order
"""
import ast

from .. import align, effects
from ..astutil import (u, atoms, guard_map, path_atoms, stmts_in, calls_in, callee, callee_attr, reaching_def, def_value,
                       PARAM, AMBIGUOUS, get_arg, get_kw, is_none, is_const, raised_name, block_path, names_in)
from ..report import Undecided

CM = 'gambit.cli.common'


def ret_tuple(fi):
    rets = [s for s in stmts_in(fi.node.body) if isinstance(s, ast.Return)]
    return rets


def check_sequence_files(ctx):
    rep, m = ctx.rep, ctx.model
    fi = m.func(f'{CM}.get_sequence_files')
    rep.functions.add(fi.qualname)
    gm = guard_map(fi.node)
    explicit, listfile, ldir = fi.params()[:3]
    rets = [s for s in ret_tuple(fi) if isinstance(s.value, ast.Tuple) and len(s.value.elts) == 2 and not all(is_none(e) for e in s.value.elts)]
    rep.require(len(rets) == 1, 'get_sequence_files: expected one (ids, files) return')
    r = rets[0]
    ids_e, files_e = r.value.elts
    # ids / files definitions are shared by both branches; the branch-specific lists are paths / paths_str
    idd = reaching_def(fi.node, ids_e.id, r) if isinstance(ids_e, ast.Name) else None
    fld = reaching_def(fi.node, files_e.id, r) if isinstance(files_e, ast.Name) else None
    idv, flv = (def_value(d) if d not in (None, PARAM, AMBIGUOUS) else None for d in (idd, fld))
    okf = isinstance(flv, ast.Call) and m.resolve_call(fi, flv) == 'gambit.seq.SequenceFile.from_paths' and isinstance(flv.args[0], ast.Name)
    oki = isinstance(idv, ast.ListComp) and len(idv.generators) == 1 and not idv.generators[0].ifs and isinstance(idv.generators[0].iter, ast.Name) \
        and isinstance(idv.elt, ast.Call) and m.resolve_call(fi, idv.elt) == f'{CM}.get_file_id' and u(idv.elt.args[0]) == u(idv.generators[0].target)
    rep.add('A1', fi.site(r), 'files = SequenceFile.from_paths(<paths>) and ids = [get_file_id(p) for p in <path strings>]: one entry per path, no filter, no sort', okf and oki,
            expected='order-preserving one-to-one maps', found=(u(flv), u(idv)), stmt='ids/files construction')
    rep.require(okf and oki, 'get_sequence_files: ids/files construction outside the vocabulary')
    pv, sv = flv.args[0].id, idv.generators[0].iter.id
    fmt = get_arg(flv, 1, 'format')
    comp = get_arg(flv, 2, 'compression')
    rep.add('A1', fi.site(flv), "files are declared FASTA with content-based compression detection", is_const(fmt, 'fasta') and is_const(comp, 'auto'), expected="('fasta', 'auto')", found=(u(fmt), u(comp)), stmt='file format')
    # per branch: both lists derive from one root
    branches = {}
    for s in stmts_in(fi.node.body):
        if isinstance(s, ast.Assign) and isinstance(s.targets[0], ast.Name) and s.targets[0].id in (pv, sv):
            key = 'explicit' if ('true', explicit) in path_atoms(gm[s]) else 'listfile' if ('isnot', 'None', listfile) in path_atoms(gm[s]) else None
            rep.require(key is not None, f'get_sequence_files: {u(s)} is not under the explicit / listfile branch')
            branches.setdefault(key, {})[s.targets[0].id] = s
    rep.floor('A1', 'input channels in get_sequence_files', len(branches), 2)
    for key, d in sorted(branches.items()):
        ok = pv in d and sv in d
        roots = {}
        if ok:
            for name, s in d.items():
                roots[name] = align.source(m, fi, s.value, s)[0]
        want = explicit if key == 'explicit' else None
        same = ok and len(set(roots.values())) == 1
        if key == 'explicit':
            same = same and set(roots.values()) == {explicit}
        else:
            # lines = list(read_lines(listfile, skip_empty=True))
            root = next(iter(roots.values())) if roots else ''
            same = same and root.startswith('read_lines(') and listfile in root
        rep.add('A1', fi.site(d.get(pv) or d.get(sv)), f'{key} channel: paths and label strings are order-preserving images of the same list', same, expected='one common root', found=roots, stmt=f'{key} alignment')
    lp = branches.get('listfile', {}).get(pv)
    if lp is not None:
        v = lp.value
        okl = isinstance(v, ast.ListComp) and isinstance(v.elt, ast.BinOp) and isinstance(v.elt.op, ast.Div) and u(v.elt.left) == f'Path({ldir})' and u(v.elt.right) == u(v.generators[0].target)
        rep.add('A1', fi.site(lp), 'list-file paths are resolved against the base directory', okl, expected=f'Path({ldir}) / line', found=u(v), stmt='listfile base dir')
        ls = branches['listfile'].get(sv)
        rl = [c for c in calls_in(fi.node) if m.resolve_call(fi, c) == 'gambit.util.io.read_lines']
        rep.add('A1', fi.site(rl[0] if rl else lp), 'empty lines of the list file are skipped (no phantom row)', len(rl) == 1 and is_const(get_kw(rl[0], 'skip_empty'), True), expected='skip_empty=True', found=[u(c) for c in rl], stmt='listfile lines')
    none_ret = [s for s in ret_tuple(fi) if s is not r]
    rep.account_returns('A1', fi, [r] + none_ret[:1], '(ids, files) pair')
    rep.add('A1', fi.site(none_ret[0] if none_ret else r), 'no input channel: (None, None)', len(none_ret) == 1 and u(none_ret[0].value) == '(None, None)', expected='return None, None', found=[u(x.value) for x in none_ret], stmt='no channel')
    # from_paths body
    fp = m.func('gambit.seq.SequenceFile.from_paths')
    rep.functions.add(fp.qualname)
    rr = [s for s in fp.node.body if isinstance(s, ast.Return)]
    p = fp.params()
    okp = len(rr) == 1 and isinstance(rr[0].value, ast.ListComp) and u(rr[0].value.generators[0].iter) == p[1] and not rr[0].value.generators[0].ifs \
        and u(rr[0].value.elt) == f'cls({u(rr[0].value.generators[0].target)}, {p[2]}, {p[3]})'
    rep.add('A1', fp.site(), 'from_paths builds one SequenceFile per path, in order, with the given format and compression', okp, expected='[cls(path, format, compression) for path in paths]', found=[u(x.value) for x in rr], stmt='from_paths')
    frl = m.func('gambit.util.io.read_lines')
    rep.functions.add(frl.qualname)
    ys = [n for n in ast.walk(frl.node) if isinstance(n, ast.Yield)]
    fl = [s for s in stmts_in(frl.node.body) if isinstance(s, ast.For)]
    wv = [u(i.optional_vars) for s in stmts_in(frl.node.body) if isinstance(s, ast.With) for i in s.items if i.optional_vars is not None and isinstance(i.context_expr, ast.Call)
          and u(i.context_expr.func) == 'maybe_open' and u(i.context_expr.args[0]) == frl.params()[0]]
    okr = len(ys) == 1 and len(fl) == 1 and len(wv) == 1 and u(fl[0].iter) == wv[0] and u(ys[0].value) == u(fl[0].target)
    rep.add('A1', frl.site(), 'read_lines yields the lines of the file in file order', okr, expected='for line in file: ... yield line', found=[u(f)[:60] for f in fl], stmt='read_lines order')


def check_labels(ctx):
    rep, m = ctx.rep, ctx.model
    fi = m.func(f'{CM}.get_file_id')
    rep.functions.add(fi.qualname)
    gm = guard_map(fi.node)
    p = fi.params()
    assigns = [s for s in stmts_in(fi.node.body) if isinstance(s, ast.Assign)]
    var = u(assigns[0].targets[0]) if assigns else None
    ok0 = bool(assigns) and u(assigns[0].value) == f'os.fspath({p[0]})'
    base = [s for s in assigns if u(s.value) == f'os.path.basename({var})' and ('true', p[1]) in path_atoms(gm[s])]
    ext = [s for s in assigns if isinstance(s.value, ast.Call) and m.resolve_call(fi, s.value) == f'{CM}.strip_seq_file_ext' and [u(a) for a in s.value.args] == [var] and ('true', p[2]) in path_atoms(gm[s])]
    rets = [s for s in stmts_in(fi.node.body) if isinstance(s, ast.Return)]
    rep.add('A2', fi.site(), 'label = path string -> basename (directory stripped) -> sequence-file extensions stripped', ok0 and len(base) == 1 and len(ext) == 1 and base[0].lineno < ext[0].lineno
            and len(rets) == 1 and u(rets[0].value) == var, expected='os.fspath -> os.path.basename -> strip_seq_file_ext', found=[u(s) for s in assigns], stmt='label derivation')
    for name in ('strip_dir', 'strip_ext'):
        d = fi.param_default(name)
        rep.add('A2', fi.site(), f'{name} defaults to True', d is not None and is_const(d, True), expected='True', found=u(d), stmt=f'{name} default')
    gsf = m.func(f'{CM}.get_sequence_files')
    for name in ('strip_dir', 'strip_ext'):
        d = gsf.param_default(name)
        rep.add('A2', gsf.site(), f'get_sequence_files: {name} defaults to True', d is not None and is_const(d, True), expected='True', found=u(d), stmt=f'gsf {name} default')
    fs = m.func(f'{CM}.strip_seq_file_ext')
    rep.functions.add(fs.qualname)
    calls = [c for c in calls_in(fs.node) if m.resolve_call(fs, c) == f'{CM}.strip_extensions']
    order = [m.resolve(fs.module, c.args[1]) for c in calls if len(c.args) == 2]
    rep.add('A2', fs.site(), 'the gzip extension is stripped before the FASTA extension (genome.fasta.gz -> genome)', order == [f'{CM}.GZIP_EXTENSIONS', f'{CM}.FASTA_EXTENSIONS'], expected='GZIP then FASTA', found=order, stmt='strip order')
    chain = [s for s in fs.node.body if isinstance(s, ast.Assign)]
    okc = len(chain) == 2 and all(u(s.targets[0]) == fs.params()[0] and u(s.value.args[0]) == fs.params()[0] for s in chain) and u(fs.node.body[-1]) == f'return {fs.params()[0]}'
    rep.add('A2', fs.site(), 'each stripping step works on the result of the previous one', okc, expected='filename = strip(filename, GZIP); filename = strip(filename, FASTA); return filename', found=[u(s) for s in fs.node.body[-3:]], stmt='strip chain')
    cm_mod = m.module(CM)
    gz = m.const_value(cm_mod, cm_mod.assigns['GZIP_EXTENSIONS'])
    fa = m.const_value(cm_mod, cm_mod.assigns['FASTA_EXTENSIONS'])
    rep.add('A2', (cm_mod.relpath, cm_mod.assigns['FASTA_EXTENSIONS'].lineno, f'{CM}.FASTA_EXTENSIONS'), 'extension tables: .gz; the usual FASTA suffixes, longer before their prefixes (.fasta before .fa)',
            tuple(gz) == ('.gz',) and '.fasta' in fa and '.fa' in fa and '.fna' in fa and all(not (b.startswith(a) and fa.index(a) < fa.index(b)) for a in fa for b in fa if a != b),
            expected="('.gz',) / .fasta ... .fa", found=(gz, fa), stmt='extension tables')
    fe = m.func(f'{CM}.strip_extensions')
    rep.functions.add(fe.qualname)
    gme = guard_map(fe.node)
    fn, exts = fe.params()[:2]
    rets = [s for s in stmts_in(fe.node.body) if isinstance(s, ast.Return)]
    inner = [r for r in rets if len(block_path(fe.node, r)) > 1]
    oke = False
    if len(inner) == 1:
        at = path_atoms(gme[inner[0]])
        loop = next((o for (_, _, o) in block_path(fe.node, inner[0]) if isinstance(o, ast.For)), None)
        if loop is not None and u(loop.iter) == exts:
            e = u(loop.target)
            oke = at == {('true', f'{fn}.endswith({e})')} and u(inner[0].value) == f'{fn}[:-len({e})]'
    rep.add('A2', fe.site(), 'at most one matching suffix is removed, exactly its length', oke and u(rets[-1].value) == fn and len(rets) == 2, expected=f'if {fn}.endswith(ext): return {fn}[:-len(ext)] ... return {fn}',
            found=[u(r.value) for r in rets], stmt='strip_extensions')


def check_query_paths(ctx):
    rep, m = ctx.rep, ctx.model
    # ---- query_cmd
    fc = m.func('gambit.cli.query.query_cmd')
    rep.functions.add(fc.qualname)
    gmc = guard_map(fc.node)
    qp = [c for c in calls_in(fc.node) if m.resolve_call(fc, c) == 'gambit.query.query_parse']
    rep.require(len(qp) == 1, 'query_cmd: expected one query_parse call')
    c = qp[0]
    st = next(s for s in stmts_in(fc.node.body) if any(x is c for x in ast.walk(s)) and isinstance(s, ast.Assign))
    files_root = align.source(m, fc, c.args[1], st)[0]
    labels = get_kw(c, 'file_labels')
    labels_root = align.source(m, fc, labels, st)[0] if labels is not None else None
    rep.add('A3', fc.site(c), 'file channel: labels and files handed to query_parse are the two aligned components of one get_sequence_files call', files_root == labels_root and files_root.startswith(f'{CM}.get_sequence_files('),
            expected='same get_sequence_files(...) call', found=(files_root, labels_root), stmt='cmd labels/files')
    gs = [x for x in calls_in(fc.node) if m.resolve_call(fc, x) == f'{CM}.get_sequence_files']
    okg = len(gs) == 1 and [u(a) for a in gs[0].args] == ['files_arg', 'listfile', 'ldir'] and not gs[0].keywords
    rep.add('A3', fc.site(gs[0] if gs else c), 'positional files, list file and its base directory are passed in that order, with default label stripping', okg, expected='get_sequence_files(files_arg, listfile, ldir)', found=[u(x) for x in gs], stmt='cmd input channels')
    gst = next((s for s in stmts_in(fc.node.body) if isinstance(s, ast.Assign) and gs and s.value is gs[0]), None)
    rep.add('A3', fc.site(gst), 'the pair is unpacked as (ids, files)', gst is not None and isinstance(gst.targets[0], ast.Tuple) and [u(e) for e in gst.targets[0].elts] == [u(labels), u(c.args[1])], expected='ids, files = ...',
            found=u(gst.targets[0]) if gst is not None else None, stmt='cmd unpack')
    dbd = def_value(reaching_def(fc.node, c.args[0].id, st)) if isinstance(c.args[0], ast.Name) and reaching_def(fc.node, c.args[0].id, st) not in (None, PARAM, AMBIGUOUS) else None
    prd = def_value(reaching_def(fc.node, c.args[2].id, st)) if len(c.args) > 2 and isinstance(c.args[2], ast.Name) and reaching_def(fc.node, c.args[2].id, st) not in (None, PARAM, AMBIGUOUS) else None
    rep.add('A3', fc.site(c), 'the query runs against the loaded database with the command parameters', isinstance(dbd, ast.Call) and callee_attr(dbd) == 'get_database' and isinstance(prd, ast.Call)
            and m.resolve_call(fc, prd) == 'gambit.query.QueryParams', expected='query_parse(<ctx.obj.get_database()>, files, <QueryParams(...)>, ...)', found=(u(dbd), u(prd)), stmt='cmd query_parse operands')
    # sig channel (A5)
    qq = [x for x in calls_in(fc.node) if m.resolve_call(fc, x) == 'gambit.query.query']
    rep.require(len(qq) == 1, 'query_cmd: expected one query() call')
    q = qq[0]
    qst = next(s for s in stmts_in(fc.node.body) if any(x is q for x in ast.walk(s)) and isinstance(s, ast.Assign))
    inp = get_kw(q, 'inputs')
    iroot = align.source(m, fc, inp, qst)[0] if inp is not None else None
    sv = q.args[1]
    okq = isinstance(sv, ast.Name) and iroot == f'{sv.id}.ids'
    rep.add('A5', fc.site(q), 'signature-file channel: one input per stored id, in stored order, and the signatures of the same object are queried', okq, expected=f'inputs = [QueryInput(id) for id in {u(sv)}.ids]; query(db, {u(sv)}, ...)',
            found=(u(sv), iroot), stmt='sigfile labels')
    idv = def_value(reaching_def(fc.node, inp.id, qst)) if isinstance(inp, ast.Name) else inp
    okl = isinstance(idv, ast.ListComp) and isinstance(idv.elt, ast.Call) and m.resolve_call(fc, idv.elt) == 'gambit.query.QueryInput' and [u(a) for a in idv.elt.args] == [u(idv.generators[0].target)]
    rep.add('A5', fc.site(q), 'each label is the stored id itself', okl, expected='QueryInput(id)', found=u(idv), stmt='sigfile label value')
    sd = def_value(reaching_def(fc.node, sv.id, qst)) if isinstance(sv, ast.Name) else None
    rep.add('A5', fc.site(q), 'the queried signatures are the loaded signature file', isinstance(sd, ast.Call) and (m.resolve_call(fc, sd) or '').endswith('load_signatures') and [u(a) for a in sd.args] == ['sigfile'], expected='load_signatures(sigfile)',
            found=u(sd), stmt='sigfile source')
    atq, atp = path_atoms(gmc[qst]), path_atoms(gmc[st])
    rep.add('A5', fc.site(q), 'exactly one channel is used: signature file if given, genome files otherwise', ('true', 'sigfile') in atq and ('false', 'sigfile') in atp, expected='if sigfile: ... else: ...', found=(sorted(atq), sorted(atp)), stmt='channel split')
    exp = [x for x in calls_in(fc.node) if callee_attr(x) == 'export']
    res_names = {u(qst.targets[0]), u(st.targets[0])}
    rep.add('A8', fc.site(exp[0] if exp else None), 'the results of whichever channel ran are exported once to the chosen output', len(exp) == 1 and len(res_names) == 1 and [u(a) for a in exp[0].args] == ['output', res_names.pop()],
            expected='exporter.export(output, results)', found=[u(x) for x in exp], stmt='export call')

    # ---- query_parse (A3)
    fq = m.func('gambit.query.query_parse')
    rep.functions.add(fq.qualname)
    gmq = guard_map(fq.node)
    dbp, filesp = fq.params()[:2]
    qc = [x for x in calls_in(fq.node) if m.resolve_call(fq, x) == 'gambit.query.query']
    rep.require(len(qc) == 1, 'query_parse: expected one query() call')
    qcall = qc[0]
    qs = next(s for s in fq.node.body if any(x is qcall for x in ast.walk(s)))
    sig_root = align.source(m, fq, qcall.args[1], qs)[0]
    rep.add('A3', fq.site(qcall), 'query signatures are computed from the files in file order (aligned by C13)', sig_root == filesp, expected=f'aligned with {filesp}', found=sig_root, stmt='signatures aligned')
    inputs = get_kw(qcall, 'inputs')
    idefs = [s for s in stmts_in(fq.node.body) if isinstance(s, ast.Assign) and u(s.targets[0]) == u(inputs)]
    roots = {}
    zipped = None
    for s in idefs:
        at = path_atoms(gmq[s])
        key = 'no labels' if ('is', 'None', 'file_labels') in at else 'labels' if ('isnot', 'None', 'file_labels') in at else '?'
        roots[key] = align.source(m, fq, s.value, s)[0]
        if key == 'labels':
            zipped = s.value
    okr = roots.get('no labels') == filesp and roots.get('labels') == f'zip_strict(file_labels, {filesp})'
    rep.add('A3', fq.site(qcall), 'inputs are the files themselves, or labels STRICTLY zipped with the files (a length mismatch is an error, never a silent truncation)', okr, expected=f'{filesp} | zip_strict(file_labels, {filesp})',
            found=roots, stmt='inputs aligned')
    if isinstance(zipped, ast.ListComp):
        e = zipped.elt
        tg = zipped.generators[0].target
        oke = isinstance(e, ast.Call) and m.resolve_call(fq, e) == 'gambit.query.QueryInput' and isinstance(tg, ast.Tuple) and [u(a) for a in e.args] == [u(x) for x in tg.elts]
        rep.add('A3', fq.site(zipped), 'each input carries its own label and its own file', oke, expected='QueryInput(label, file) for label, file in zip_strict(file_labels, files)', found=u(zipped), stmt='input pairing')
    rep.add('A3', fq.site(qcall), 'the same database is queried and the caller parameters are forwarded', u(qcall.args[0]) == dbp and u(qcall.args[2]) == fq.params()[2], expected=f'query({dbp}, sigs, params, ...)', found=u(qcall)[:60], stmt='query operands')
    rep.account_returns('A3', fq, [s for s in stmts_in(fq.node.body) if isinstance(s, ast.Return) and s.value is qcall], 'results object')
    fz = m.func('gambit.util.misc.zip_strict')
    rep.functions.add(fz.qualname)
    zr = [s for s in stmts_in(fz.node.body) if isinstance(s, ast.Return)]
    okz = any(u(r.value) == 'zip(*iterables, strict=True)' for r in zr) and any(u(r.value) == '_zip_strict(*iterables)' for r in zr)
    rep.add('A3', fz.site(), 'zip_strict is the strict zip (raises on unequal lengths)', okz, expected='zip(*iterables, strict=True) / _zip_strict', found=[u(r.value) for r in zr], stmt='zip_strict')


def check_query(ctx):
    rep, m = ctx.rep, ctx.model
    fi = m.func('gambit.query.query')
    rep.functions.add(fi.qualname)
    gm = guard_map(fi.node)
    dbp, qp, pp = fi.params()[:3]
    ret0 = fi.node.body[-1]
    items_name = u(get_kw(ret0.value, 'items')) if isinstance(ret0, ast.Return) and isinstance(ret0.value, ast.Call) and get_kw(ret0.value, 'items') is not None else 'items'
    items = [s for s in stmts_in(fi.node.body) if isinstance(s, ast.Assign) and u(s.targets[0]) == items_name]
    rep.require(len(items) == 1 and isinstance(items[0].value, ast.ListComp), 'query: items is not a single list comprehension')
    lc = items[0].value
    g = lc.generators[0]
    oken = isinstance(g.iter, ast.Call) and u(g.iter.func) == 'enumerate' and len(g.iter.args) == 1 and isinstance(g.target, ast.Tuple) and not g.ifs and len(lc.generators) == 1
    rep.add('A4', fi.site(lc), 'one result item per input, in input order (enumerate, no filter)', oken, expected='for i, input in enumerate(inputs)', found=u(g.iter), stmt='items enumerate')
    rep.require(oken, 'query: items comprehension shape')
    i, inp = (u(e) for e in g.target.elts)
    e = lc.elt
    oke = isinstance(e, ast.Call) and m.resolve_call(fi, e) == 'gambit.query.get_result_item' and len(e.args) == 4 and u(e.args[0]) == dbp and u(e.args[3]) == inp
    dm = e.args[2] if oke else None
    okr = isinstance(dm, ast.Subscript) and isinstance(dm.value, ast.Name) and u(dm) in (f'{u(dm.value)}[{i}, :]', f'{u(dm.value)}[{i}]')
    dmat_name = u(dm.value) if isinstance(dm, ast.Subscript) else None
    rep.add('A4', fi.site(lc), 'item i is built from row i of the distance matrix and input i (same index)', oke and okr, expected=f'get_result_item({dbp}, params, dmat[{i}, :], {inp})', found=u(e), stmt='row/input pairing')
    src_root = align.source(m, fi, g.iter.args[0], items[0])[0]
    mats = [c for c in calls_in(fi.node) if m.resolve_call(fi, c) == 'gambit.metric.jaccarddist_matrix']
    rep.require(len(mats) == 1, 'query: expected one jaccarddist_matrix call')
    mc = mats[0]
    mst = next(s for s in fi.node.body if any(x is mc for x in ast.walk(s)))
    rows_root = align.source(m, fi, mc.args[0], mst)[0]
    rep.add('A4', fi.site(mc), 'matrix rows follow the query signatures in the given order', rows_root == qp, expected=qp, found=rows_root, stmt='matrix rows')
    rep.add('A4', fi.site(mc), 'the rows classified are rows of that distance matrix', isinstance(mst, ast.Assign) and u(mst.targets[0]) == dmat_name, expected='dmat = jaccarddist_matrix(...)', found=(u(mst.targets[0]) if isinstance(mst, ast.Assign) else None, dmat_name),
            stmt='matrix variable')
    if src_root == '?inputs':
        # assigned on both sides of `if inputs is not None`: every definition must be an order-preserving image of the
        # parameter, or the default numbering over the queries
        roots = set()
        for s_ in stmts_in(fi.node.body):
            if isinstance(s_, ast.Assign) and u(s_.targets[0]) == 'inputs':
                roots.add(align.source(m, fi, s_.value, s_)[0])
        src_root = 'inputs' if roots == {'inputs', f'range(len({qp}))'} else f'{sorted(roots)}'
    rep.add('A4', fi.site(lc), 'the iterated inputs are the caller inputs in order (converted one-to-one; progress wrapper transparent)', src_root == 'inputs', expected='inputs', found=src_root, stmt='inputs order')
    # len check
    rs = [s for s in stmts_in(fi.node.body) if isinstance(s, ast.Raise)]
    okl = any(('ne', 'len(inputs)', f'len({qp})') in path_atoms(gm[r]) and raised_name(r) == 'ValueError' for r in rs)
    rep.add('A4', fi.site(rs[0] if rs else None), 'a different number of inputs and queries is an error (no mislabelled or dropped row)', okl, expected=f'raise ValueError when len(inputs) != len({qp})', found=[sorted(path_atoms(gm[r])) for r in rs],
            stmt='length check')
    dflt = [s for s in stmts_in(fi.node.body) if isinstance(s, ast.Assign) and u(s.targets[0]) == 'inputs' and ('is', 'None', 'inputs') in path_atoms(gm[s])]
    okd = len(dflt) == 1 and isinstance(dflt[0].value, ast.ListComp) and u(dflt[0].value.generators[0].iter) == f'range(len({qp}))'
    rep.add('A4', fi.site(dflt[0] if dflt else None), 'without inputs, one numbered label per query', okd, expected=f'[QueryInput(str(i + 1)) for i in range(len({qp}))]', found=[u(d.value) for d in dflt], stmt='default labels')
    rep.account_returns('A4', fi, [fi.node.body[-1]] if isinstance(fi.node.body[-1], ast.Return) else [], 'results object')
    ql = [s for s in fi.node.body if isinstance(s, ast.Assign) and u(s.targets[0]) == qp]
    rep.add('A4', fi.site(ql[0] if ql else None), 'the query sequence is materialised once, order kept', len(ql) == 1 and u(ql[0].value) == f'list({qp})', expected=f'{qp} = list({qp})', found=[u(x.value) for x in ql], stmt='queries list')
    ret = fi.node.body[-1]
    okret = isinstance(ret, ast.Return) and isinstance(ret.value, ast.Call) and u(get_kw(ret.value, 'items')) == items_name and m.resolve_call(fi, ret.value) == 'gambit.query.QueryResults'
    rep.add('A4', fi.site(ret), 'the results carry the items list as built', okret, expected='QueryResults(items=items, ...)', found=u(ret)[:60], stmt='results items')
    gri = m.func('gambit.query.get_result_item')
    ctor = [c for c in calls_in(gri.node) if m.resolve_call(gri, c) == 'gambit.query.QueryResultItem']
    rep.add('A4', gri.site(ctor[0] if ctor else None), 'the item is labelled with the input it was given', len(ctor) == 1 and u(get_kw(ctor[0], 'input')) == gri.params()[3], expected='input=input', found=[u(get_kw(c, 'input')) for c in ctor], stmt='item label')
    fcv = m.func('gambit.query.QueryInput.convert')
    rep.functions.add(fcv.qualname)
    gmv = guard_map(fcv.node)
    x = fcv.params()[1]
    conv = {}
    for r in [s for s in stmts_in(fcv.node.body) if isinstance(s, ast.Return)]:
        for a in path_atoms(gmv[r]):
            if a[0] == 'true' and a[1].startswith(f'isinstance({x}, '):
                conv[a[1][len(f'isinstance({x}, '):-1]] = u(r.value)
    rep.add('A4', fcv.site(), 'QueryInput.convert keeps an input as is, labels a string with itself and a file with its path', conv == {'QueryInput': x, 'str': f'QueryInput({x})', 'SequenceFile': f'QueryInput(str({x}.path), {x})'},
            expected='identity / QueryInput(x) / QueryInput(str(x.path), x)', found=conv, stmt='convert')


def check_independence(ctx):
    rep, m = ctx.rep, ctx.model
    roots = ['gambit.query.get_result_item']
    clo = effects.closure(m, roots, method_modules={'gambit.db.models', 'gambit.classify', 'gambit.query'})
    # drop ORM helpers that are not on the per-row path
    clo = {q for q in clo if m.functions[q].module.name in ('gambit.query', 'gambit.classify', 'gambit.db.models', 'gambit.util.misc')}
    rep.floor('A6', 'functions in the per-row closure', len(clo), 8)
    rep.info['per_row_closure'] = sorted(clo)
    for q in sorted(clo):
        fi = m.functions[q]
        rep.functions.add(q)
        ws = effects.nonlocal_writes(fi, model=m, strict=True)
        rep.add('A6', fi.site(ws[0][0] if ws and isinstance(ws[0][0], ast.AST) else None), f'{q.rsplit(".", 2)[-2] + "." + fi.name if fi.cls else fi.name}: writes nothing outside its own locals (row content cannot depend on other rows or on call order)',
                not ws, expected='no store to parameters / globals / self', found=[d for _, d in ws][:4], stmt=f'effects {q}', construct=q)
    # module-level mutable state in these modules that the closure reads would also carry context: none is assigned at module level except constants
    for modname in ('gambit.classify', 'gambit.query'):
        mod = m.module(modname)
        muts = [k for k, v in mod.assigns.items() if isinstance(v, (ast.List, ast.Dict, ast.Set, ast.ListComp, ast.DictComp)) or (isinstance(v, ast.Call) and u(v.func) in ('dict', 'list', 'set', 'defaultdict'))]
        rep.add('A6', (mod.relpath, 1, modname), f'{modname} holds no module-level mutable container (no cross-row cache)', not muts, expected='none', found=muts, stmt=f'module state {modname}')


def check_transparency(ctx):
    rep, m = ctx.rep, ctx.model
    fn = m.func('gambit.util.progress.ProgressIterator.__next__')
    rep.functions.add(fn.qualname)
    rets = [s for s in stmts_in(fn.node.body) if isinstance(s, ast.Return)]
    pulls = [c for c in calls_in(fn.node) if u(c.func) == 'next']
    okn = len(rets) == 1 and len(pulls) == 1 and [u(a) for a in pulls[0].args] == ['self.itr'] and isinstance(rets[0].value, ast.Name)
    if okn:
        d = [s for s in stmts_in(fn.node.body) if isinstance(s, ast.Assign) and u(s.targets[0]) == rets[0].value.id]
        okn = len(d) == 1 and d[0].value is pulls[0]
    rep.add('A7', fn.site(), 'the progress iterator returns exactly the one value it pulled from the wrapped iterator', okn, expected='value = next(self.itr); return value', found=[u(r) for r in rets] + [u(p) for p in pulls], stmt='progress next')
    handlers = [h for s in stmts_in(fn.node.body) if isinstance(s, ast.Try) for h in s.handlers]
    okh = all(u(h.type) == 'StopIteration' and isinstance(h.body[-1], ast.Raise) and h.body[-1].exc is None for h in handlers)
    rep.add('A7', fn.site(), 'only exhaustion is intercepted, and it is re-raised', okh, expected='except StopIteration: ...; raise', found=[u(h.type) for h in handlers], stmt='progress stop')
    fin = m.func('gambit.util.progress.ProgressIterator.__init__')
    sets = {u(s.targets[0]): u(s.value) for s in fin.node.body if isinstance(s, ast.Assign)}
    rep.add('A7', fin.site(), 'it iterates the given iterable itself', sets.get('self.itr') == f'iter({fin.params()[1]})', expected='self.itr = iter(iterable)', found=sets.get('self.itr'), stmt='progress source')
    fip = m.func('gambit.util.progress.iter_progress')
    rr = [s for s in fip.node.body if isinstance(s, ast.Return)]
    rep.add('A7', fip.site(), 'iter_progress wraps the iterable unchanged', len(rr) == 1 and isinstance(rr[0].value, ast.Call) and u(rr[0].value.func) == 'ProgressIterator' and u(rr[0].value.args[0]) == fip.params()[0],
            expected='ProgressIterator(iterable, meter)', found=[u(r.value) for r in rr], stmt='iter_progress')
    rep.functions.update({fin.qualname, fip.qualname})
    # cores taint: only omp_set_num_threads(cores), max_workers=cores, parse_kw=dict(max_workers=cores), `cores is not None`
    n = 0
    for q in ('gambit.cli.query.query_cmd', 'gambit.cli.dist.dist_cmd', 'gambit.cli.tree.tree_cmd', 'gambit.cli.signatures.create'):
        fi = m.func(q)
        rep.functions.add(q)
        pm = {}
        for node in ast.walk(fi.node):
            for ch in ast.iter_child_nodes(node):
                pm[ch] = node
        bad = []
        for node in ast.walk(fi.node):
            if isinstance(node, ast.Name) and node.id == 'cores' and isinstance(node.ctx, ast.Load):
                n += 1
                par = pm.get(node)
                if isinstance(par, ast.Compare) and all(is_none(c) for c in par.comparators):
                    continue
                if isinstance(par, ast.Call) and (m.resolve_call(fi, par) or '').endswith('omp_set_num_threads') and par.args == [node]:
                    continue
                if isinstance(par, ast.keyword) and par.arg == 'max_workers':
                    continue
                bad.append(u(par)[:60])
        rep.add('A7', fi.site(), f'{fi.name}: the core count reaches only the OpenMP thread setter and worker-pool sizes (never data or row selection)', not bad, expected='omp_set_num_threads(cores) / max_workers=cores', found=bad,
                stmt=f'cores {fi.name}', construct=q)
    rep.floor('A7', 'uses of `cores`', n, 6)
    fq = m.func('gambit.query.query')
    mats = [c for c in calls_in(fq.node) if m.resolve_call(fq, c) == 'gambit.metric.jaccarddist_matrix']
    cs = get_kw(mats[0], 'chunksize') if mats else None
    rep.add('A7', fq.site(mats[0] if mats else None), 'the reference chunk size only parameterises the chunked matrix computation (C05-B5 shows cells do not depend on it)', u(cs) == f'{fq.params()[2]}.chunksize',
            expected='chunksize=params.chunksize', found=u(cs), stmt='chunksize wiring')


def check_exporters(ctx):
    rep, m = ctx.rep, ctx.model
    fe = m.func('gambit.results.CSVResultsExporter.export')
    rep.functions.add(fe.qualname)
    loops = [s for s in stmts_in(fe.node.body) if isinstance(s, ast.For)]
    wn = next((u(s.targets[0]) for s in stmts_in(fe.node.body) if isinstance(s, ast.Assign) and isinstance(s.value, ast.Call) and u(s.value.func) == 'csv.writer'), 'writer')
    ok = len(loops) == 1 and u(loops[0].iter) == f'{fe.params()[2]}.items' and len(loops[0].body) == 1 and u(loops[0].body[0]) == f'{wn}.writerow(self.get_row({u(loops[0].target)}))'
    rep.add('A8', fe.site(loops[0] if loops else None), 'CSV: one row per result item, in item order', ok, expected='for item in results.items: writer.writerow(self.get_row(item))', found=[u(l)[:80] for l in loops], stmt='csv rows')
    fj = m.func('gambit.results.JSONResultsExporter._results_to_json')
    rep.functions.add(fj.qualname)
    body = [s for s in fj.node.body]
    okj = any(isinstance(s, ast.Assign) and u(s.value) == f'asdict({fj.params()[1]}, recurse=False)' for s in body) and not any(isinstance(s, ast.Delete) and 'items' in u(s) for s in body)
    rep.add('A8', fj.site(), 'JSON: the items list is exported as is (no reordering / filtering)', okj, expected='asdict(results, recurse=False)', found=[u(s) for s in body], stmt='json items')


def check(ctx):
    rep = ctx.rep
    rep.rule('A1', 'get_sequence_files: ids and files are order-preserving one-to-one images of one list per channel; from_paths / read_lines keep order')
    rep.rule('A2', 'label = basename with .gz stripped before the FASTA suffix; at most one suffix each')
    rep.rule('A3', 'query_cmd / query_parse: labels, files, signatures and inputs share one root; labels zipped strictly')
    rep.rule('A4', 'query(): len check; items[i] from dmat[i, :] and inputs[i]; rows follow queries')
    rep.rule('A5', 'signature-file channel: inputs from sigs.ids, queries = sigs of the same object')
    rep.rule('A6', 'effect analysis over the per-row call-graph closure: no write outside locals; no module-level mutable state')
    rep.rule('A7', 'progress iterator transparent; cores only to thread/worker sinks; chunk size only to the chunked computation')
    rep.rule('A8', 'exporters iterate results.items in order')
    rep.trusted += ['list/map/comprehension/enumerate/zip(strict=True) preserve order', 'calc_file_signatures is order-preserving for every schedule (C13)', 'matrix cells do not depend on chunking / threads (C05)']
    rep.assumptions += ['That gzip / plain / signature-file channels yield the same signature is C01/C06/C12.']
    check_sequence_files(ctx)
    check_labels(ctx)
    check_query_paths(ctx)
    check_query(ctx)
    check_independence(ctx)
    check_transparency(ctx)
    check_exporters(ctx)
    # "identical whether the genome is passed ... gzip-compressed": the compression / parsing clauses of C06, re-evaluated
    from . import c06
    rep.rule('F4', "C06-F4 re-evaluated: content-based compression detection at every CLI site; gzip stream handling")
    rep.rule('F5', 'C06-F5 re-evaluated: parse() stream handling')
    c06.check_compression(ctx)
    c06.check_parse(ctx)
    # "alone or within any batch in any order, for any number of cores": the batch computation must give each file its own
    # single-file signature in file order - the C13 clauses and the per-record/per-file isolation clause of C06, re-evaluated
    from . import c13
    c13.declare_rules(rep)
    rep.rule('F1', 'C06-F1 re-evaluated: per-record isolation, one accumulator per file')
    c13.core(ctx)
    c06.check_isolation(ctx)


from ..variants import V  # noqa: E402

_Q = 'src/gambit/query.py'
_C = 'src/gambit/cli/common.py'
_CQ = 'src/gambit/cli/query.py'
VARIANTS = [
    V('zip for zip_strict', 'B', _Q, "for label, file in zip_strict(file_labels, files)]", "for label, file in zip(file_labels, files)]", 'A3'),
    V('files sorted in query_parse', 'B', _Q, "\tquery_sigs = calc_file_signatures(db.signatures.kmerspec, files, **parse_kw)", "\tquery_sigs = calc_file_signatures(db.signatures.kmerspec, sorted(files), **parse_kw)", 'A3'),
    V('row 0 for every item', 'B', _Q, "dmat[i, :], input) for i, input in enumerate(inputs_iter)]", "dmat[0, :], input) for i, input in enumerate(inputs_iter)]", 'A4'),
    V('FASTA extension stripped before gzip', 'B', _C, "\tfilename = strip_extensions(filename, GZIP_EXTENSIONS)\n\tfilename = strip_extensions(filename, FASTA_EXTENSIONS)", "\tfilename = strip_extensions(filename, FASTA_EXTENSIONS)\n\tfilename = strip_extensions(filename, GZIP_EXTENSIONS)", 'A2'),
    V('ids from sorted path strings', 'B', _C, "ids = [get_file_id(f, strip_dir, strip_ext) for f in paths_str]", "ids = [get_file_id(f, strip_dir, strip_ext) for f in sorted(paths_str)]", 'A1'),
    V('duplicate files dropped', 'B', _C, "\t\tpaths = list(map(Path, explicit))\n", "\t\tpaths = list(dict.fromkeys(map(Path, explicit)))\n", 'A1'),
    V('length check dropped', 'B', _Q, "\t\tif len(inputs) != len(queries):\n\t\t\traise ValueError('Number of inputs does not match number of queries.')\n", "", 'A4'),
    V('state carried between rows', 'B', _Q, "\tclsresult = classify(db.genomes, dists, strict=params.classify_strict)\n", "\tclsresult = classify(db.genomes, dists, strict=params.classify_strict)\n\tparams.report_closest = max(1, params.report_closest - 1)\n", 'A6'),
    V('module-level cache of results', 'B', _Q, "def get_result_item(", "_CACHE = {}\n\n\ndef get_result_item(", 'A6'),
    V('sigfile labels reversed', 'B', _CQ, "inputs = [QueryInput(id) for id in sigs.ids]", "inputs = [QueryInput(id) for id in sigs.ids[::-1]]", 'A5'),
    V('cores selects the rows', 'B', _CQ, "\t\t\tdb, files, params,\n", "\t\t\tdb, files[:cores], params,\n", 'A'),
    V('progress iterator skips an item', 'B', 'src/gambit/util/progress.py', "\t\t\tvalue = next(self.itr)\n", "\t\t\tvalue = next(self.itr)\n\t\t\tif self._first is None:\n\t\t\t\tvalue = next(self.itr)\n", 'A7'),
    V('labels keep the directory', 'B', _C, "\t\tid = os.path.basename(id)\n", "\t\tid = os.path.normpath(id)\n", 'A2'),
    V('list-file base directory ignored', 'B', _C, "paths = [Path(listfile_dir) / line for line in lines]", "paths = [Path(line) for line in lines]", 'A1'),
    V('csv rows sorted by label', 'B', 'src/gambit/results.py', "\t\t\tfor item in results.items:", "\t\t\tfor item in sorted(results.items, key=lambda it: it.input.label):", 'A8'),
    V('gzip read through one-shot zlib.decompress (first member only; seeded C08a)', 'B', 'src/gambit/util/io.py', "binary = gzip.GzipFile(fileobj=file, mode='rb')",
      "binary = BytesIO(zlib.decompress(file.read(), zlib.MAX_WBITS | 16))", 'F4'),
    V('files submitted in chunks sharing one accumulator (seeded C08b, reduced)', 'B', 'src/gambit/sigs/calc.py', "\t\t\t\tfuture = executor.submit(calc_file_signature, kspec, file)",
      "\t\t\t\tfuture = executor.submit(calc_file_signature, kspec, file, accumulator=shared)", 'S4'),
    V('E: explicit comprehension instead of map', 'E', _C, "\t\tpaths_str = list(map(str, paths))\n", "\t\tpaths_str = [str(p) for p in paths]\n"),
    V('E: dmat[i] row form', 'E', _Q, "dmat[i, :], input) for i, input in enumerate(inputs_iter)]", "dmat[i], input) for i, input in enumerate(inputs_iter)]"),
]
