"""C08 - query output rows: one per input, in order, correctly labelled, context-free.

Alignment-provenance dataflow from the click parameters to results.items:
A1 ids and files of get_sequence_files are order-preserving images of one list   A2 label derivation
A3 query command / query_parse: labels, files, signatures and inputs aligned (zip_strict)
A4 query(): length check; row i of the matrix classified for input i   A5 signature-file channel
A6 independence: the per-row computation writes no state outside its own locals (effect analysis over the call graph)
A7 progress wrapper is transparent; `cores` only reaches thread / worker sinks   A8 exporters iterate items in order
"""
import ast
import copy

from .. import align, effects
from ..affine import Aff
from ..astutil import (u, atoms, guard_map, path_atoms, stmts_in, calls_in, callee, callee_attr, reaching_def, def_value,
                       PARAM, AMBIGUOUS, get_arg, get_kw, is_none, is_const, raised_name, block_path, names_in)
from ..report import Undecided

CM = 'gambit.cli.common'


def ret_tuple(fi):
    rets = [s for s in stmts_in(fi.node.body) if isinstance(s, ast.Return)]
    return rets


# ---------------------------------------------------------------------- shared semantic helpers
# The rules below decide by value flow, not by spelling.  Three small evaluators serve them:
#   sym_returns   the value returned on every path of a loop-free function, expressed over its parameters (locals substituted,
#                 guard clauses / if-else / conditional expressions forked, loops over a literal tuple unrolled)
#   each_form     the (iterable, element variable, element expression) of an order-preserving elementwise construct
#   expand_locals a local that merely names a side-effect-free expression is replaced by that expression

def _is_doc(s):
    return isinstance(s, ast.Expr) and isinstance(s.value, ast.Constant)


def _comp_bound(node):
    return {x.id for g in node.generators for x in ast.walk(g.target) if isinstance(x, ast.Name)}


class _Subst(ast.NodeTransformer):
    """Replace loaded names by the expressions they are bound to.  Inserted expressions are final (they speak about the state
    at function entry) and are never substituted again; names bound by a comprehension / lambda are left alone."""

    def __init__(self, env):
        self.env = env

    def visit(self, node):
        if getattr(node, '_final', False):
            return node
        return super().visit(node)

    def visit_Name(self, n):
        if isinstance(n.ctx, ast.Load) and n.id in self.env:
            v = copy.deepcopy(self.env[n.id])
            v._final = True
            return v
        return n

    def _scoped(self, n, bound):
        saved = self.env
        self.env = {k: v for k, v in saved.items() if k not in bound}
        if any(names_in(v) & bound for v in self.env.values()):
            raise Undecided(f'substitution into {u(n)[:60]} would capture a name bound there')
        self.generic_visit(n)
        self.env = saved
        return n

    def visit_ListComp(self, n):
        return self._scoped(n, _comp_bound(n))

    visit_GeneratorExp = visit_SetComp = visit_DictComp = visit_ListComp

    def visit_Lambda(self, n):
        a = n.args
        return self._scoped(n, {x.arg for x in a.posonlyargs + a.args + a.kwonlyargs} | ({a.vararg.arg} if a.vararg else set()) | ({a.kwarg.arg} if a.kwarg else set()))


def subst(e, env):
    return _Subst(env).visit(copy.deepcopy(e)) if env else copy.deepcopy(e)


def sym_returns(fi, what):
    """[(guards, value, return statement)] for every path through a loop-free function: `guards` is the list of (test, polarity)
    taken, `value` the returned expression over the PARAMETERS (every local replaced by what it holds on that path).  A `for`
    over a literal tuple / list is the unrolled sequence of its bodies.  Any other statement is outside the vocabulary."""
    out = []

    def emit(v, guards, s):
        if isinstance(v, ast.IfExp):
            emit(v.body, guards + [(v.test, True)], s)
            emit(v.orelse, guards + [(v.test, False)], s)
            return
        if len(out) >= 64:
            raise Undecided(f'{what}: more than 64 paths')
        out.append((tuple(guards), v, s))

    def run(stmts, env, guards):
        for k, s in enumerate(stmts):
            rest = stmts[k + 1:]
            if _is_doc(s) or isinstance(s, ast.Pass):
                continue
            if isinstance(s, ast.Assign) and len(s.targets) == 1 and isinstance(s.targets[0], ast.Name):
                env = {**env, s.targets[0].id: subst(s.value, env)}
                continue
            if isinstance(s, ast.AnnAssign) and isinstance(s.target, ast.Name) and s.value is not None:
                env = {**env, s.target.id: subst(s.value, env)}
                continue
            if isinstance(s, ast.AugAssign) and isinstance(s.target, ast.Name):
                cur = ast.Name(id=s.target.id, ctx=ast.Load())
                env = {**env, s.target.id: subst(ast.BinOp(left=cur, op=s.op, right=s.value), env)}
                continue
            if isinstance(s, ast.If):
                t = subst(s.test, env)
                run(list(s.body) + rest, env, guards + [(t, True)])
                run(list(s.orelse) + rest, env, guards + [(t, False)])
                return
            if isinstance(s, ast.For) and isinstance(s.iter, (ast.Tuple, ast.List)) and isinstance(s.target, ast.Name) and not s.orelse \
                    and not any(isinstance(x, ast.Starred) for x in s.iter.elts) \
                    and not any(isinstance(x, (ast.Break, ast.Continue)) for x in stmts_in(s.body)):
                unrolled = []
                for e in s.iter.elts:
                    v = subst(e, env)       # the tuple is evaluated once, before the first iteration
                    v._final = True
                    unrolled.append(ast.Assign(targets=[ast.Name(id=s.target.id, ctx=ast.Store())], value=v, lineno=s.lineno))
                    unrolled += list(s.body)
                run(unrolled + rest, env, guards)
                return
            if isinstance(s, ast.Return):
                emit(subst(s.value, env) if s.value is not None else ast.Constant(value=None), guards, s)
                return
            if isinstance(s, ast.Raise):
                return      # the path ends in an error: nothing is returned on it
            raise Undecided(f'{what}: `{u(s).splitlines()[0][:70]}` is outside the vocabulary of the path evaluator (assignments, if / conditional '
                            f'expressions, loops over a literal tuple, return)')
        emit(ast.Constant(value=None), guards, None)

    run([s for s in fi.node.body], {}, [])
    return out


def sym_iteration(body, what):
    """[(guards, [yielded values], ends)] for every path through ONE iteration of a generator's loop body: values are over the loop
    variable and the parameters (locals substituted); a conditional expression that is assigned or yielded forks the path;
    `ends` is 'next' (falls through / continue) or 'stop' (break / return)."""
    out = []

    def fork(v, guards):
        if isinstance(v, ast.IfExp):
            return fork(v.body, guards + [(v.test, True)]) + fork(v.orelse, guards + [(v.test, False)])
        return [(v, guards)]

    def run(stmts, env, guards, ys):
        for k, s in enumerate(stmts):
            rest = stmts[k + 1:]
            if _is_doc(s) or isinstance(s, ast.Pass):
                continue
            if isinstance(s, ast.Assign) and len(s.targets) == 1 and isinstance(s.targets[0], ast.Name):
                for v, g in fork(subst(s.value, env), guards):
                    run(rest, {**env, s.targets[0].id: v}, g, ys)
                return
            if isinstance(s, ast.Expr) and isinstance(s.value, ast.Yield) and s.value.value is not None:
                for v, g in fork(subst(s.value.value, env), guards):
                    run(rest, env, g, ys + [v])
                return
            if isinstance(s, ast.If):
                t = subst(s.test, env)
                run(list(s.body) + rest, env, guards + [(t, True)], ys)
                run(list(s.orelse) + rest, env, guards + [(t, False)], ys)
                return
            if isinstance(s, (ast.Continue, ast.Break, ast.Return)):
                out.append((tuple(guards), ys, 'next' if isinstance(s, ast.Continue) else 'stop'))
                return
            raise Undecided(f'{what}: `{u(s).splitlines()[0][:70]}` is outside the vocabulary of the iteration evaluator (assignments, if / conditional expressions, yield, continue)')
        if len(out) >= 64:
            raise Undecided(f'{what}: more than 64 paths')
        out.append((tuple(guards), ys, 'next'))

    run(list(body), {}, [], [])
    return out


def const_truth(e, env):
    """Truth of a condition over constants and the given `text -> constant` bindings (field.name -> 'items'); None when it depends on
    anything else."""
    class _U(Exception):
        pass

    def val(x):
        if u(x) in env:
            return env[u(x)]
        if isinstance(x, ast.Constant):
            return x.value
        if isinstance(x, (ast.Tuple, ast.List, ast.Set)):
            return [val(y) for y in x.elts]
        if isinstance(x, ast.UnaryOp) and isinstance(x.op, ast.Not):
            return not val(x.operand)
        if isinstance(x, ast.BoolOp):
            vs = []
            for y in x.values:      # short circuit: an operand that is never reached may be unknown
                v = val(y)
                vs.append(v)
                if bool(v) != isinstance(x.op, ast.And):
                    return v
            return vs[-1]
        if isinstance(x, ast.Compare) and len(x.ops) == 1:
            a, b, op = val(x.left), val(x.comparators[0]), x.ops[0]
            if isinstance(op, ast.Eq):
                return a == b
            if isinstance(op, ast.NotEq):
                return a != b
            if isinstance(op, ast.In):
                return a in b
            if isinstance(op, ast.NotIn):
                return a not in b
        raise _U()
    try:
        return bool(val(e))
    except (_U, TypeError):
        return None


def truth(test, asg):
    """Three-valued truth of a guard under a partial assignment: True / False / None (unknown).  `asg` maps the text of an
    expression (a flag name, `line.strip()`) to its truthiness; x == '' / len(x) == 0 / bool(x) are read as the truthiness of x."""
    if u(test) in asg:
        return asg[u(test)]
    if isinstance(test, ast.Constant):
        return bool(test.value)
    if isinstance(test, ast.Call) and u(test.func) == 'bool' and len(test.args) == 1 and not test.keywords:
        return truth(test.args[0], asg)
    if isinstance(test, ast.Compare) and len(test.ops) == 1:
        l, op, r = test.left, test.ops[0], test.comparators[0]
        is_len = lambda x: isinstance(x, ast.Call) and u(x.func) == 'len' and len(x.args) == 1 and not x.keywords     # noqa: E731
        v = None
        if isinstance(op, (ast.Eq, ast.NotEq)) and (is_const(r, '') or (is_len(l) and is_const(r, 0))):
            v = truth(l.args[0] if is_len(l) else l, asg)
            v = None if v is None else (not v if isinstance(op, ast.Eq) else v)
        elif isinstance(op, ast.Lt) and is_const(l, 0) and is_len(r):
            v = truth(r.args[0], asg)
        return v
    if isinstance(test, ast.UnaryOp) and isinstance(test.op, ast.Not):
        v = truth(test.operand, asg)
        return None if v is None else not v
    if isinstance(test, ast.BoolOp):
        vals = [truth(v, asg) for v in test.values]
        if isinstance(test.op, ast.And):
            return False if False in vals else True if all(v is True for v in vals) else None
        return True if True in vals else False if all(v is False for v in vals) else None
    return None


def feasible(guards, asg):
    return all(truth(t, asg) in (None, pol) for t, pol in guards)


def _unwrap_seq(e):
    while isinstance(e, ast.Call) and isinstance(e.func, ast.Name) and e.func.id in ('list', 'tuple', 'iter') and len(e.args) == 1 and not e.keywords:
        e = e.args[0]
    return e


def each_form(e):
    """(iterable, target, element) of an order-preserving one-to-one elementwise construct, else None:
    [E for t in IT] / (E for t in IT) / map(f, IT), possibly wrapped in list() / tuple().  No filter, one generator."""
    e = _unwrap_seq(e)
    if isinstance(e, (ast.ListComp, ast.GeneratorExp)) and len(e.generators) == 1 and not e.generators[0].ifs and not e.generators[0].is_async:
        g = e.generators[0]
        return g.iter, g.target, e.elt
    if isinstance(e, ast.Call) and isinstance(e.func, ast.Name) and e.func.id == 'map' and len(e.args) == 2 and not e.keywords \
            and not any(isinstance(a, ast.Starred) for a in e.args):
        t = ast.Name(id='_x', ctx=ast.Load())
        return e.args[1], t, ast.Call(func=e.args[0], args=[t], keywords=[])
    return None


def is_filtered(e):
    """A comprehension that drops or multiplies elements (filter / several generators): a concrete loss of the one-to-one image."""
    e = _unwrap_seq(e)
    return isinstance(e, (ast.ListComp, ast.GeneratorExp)) and (len(e.generators) != 1 or bool(e.generators[0].ifs))


_PURE = (ast.Name, ast.Constant, ast.Attribute, ast.BinOp, ast.UnaryOp, ast.operator, ast.unaryop, ast.expr_context, ast.Subscript, ast.Tuple)


def _pure(v):
    for n in ast.walk(v):
        if isinstance(n, ast.Call):
            if not (isinstance(n.func, ast.Name) and n.func.id == 'len' and len(n.args) == 1 and not n.keywords):
                return False
        elif not isinstance(n, _PURE):
            return False
    return True


def expand_locals(fi, expr, stmt, depth=0):
    """`expr` as evaluated at `stmt`, with every local that only names a side-effect-free expression (n = len(xs), g = db.genomes)
    replaced by that expression - provided the operands of that expression are not rebound between the definition and `stmt`."""
    bound = set()
    for n in ast.walk(expr):
        if isinstance(n, (ast.ListComp, ast.GeneratorExp, ast.SetComp, ast.DictComp)):
            bound |= _comp_bound(n)

    class T(ast.NodeTransformer):
        def visit_Name(self, n):
            if not isinstance(n.ctx, ast.Load) or n.id in bound or depth > 4:
                return n
            d = reaching_def(fi.node, n.id, stmt)
            v = def_value(d) if d not in (None, PARAM, AMBIGUOUS) else None
            if v is None or not _pure(v):
                return n
            for nm in names_in(v):
                if reaching_def(fi.node, nm, d) is not reaching_def(fi.node, nm, stmt):
                    return n
            return expand_locals(fi, v, d, depth + 1)

    return T().visit(copy.deepcopy(expr))


def range_len(fi, call, stmt):
    """Number of elements of range(...) as an affine form over expanded locals (None when not a unit-step range)."""
    if not (isinstance(call, ast.Call) and isinstance(call.func, ast.Name) and call.func.id == 'range' and not call.keywords and 1 <= len(call.args) <= 3):
        return None
    if len(call.args) == 3 and not is_const(call.args[2], 1):
        return None
    a = [Aff.try_of(expand_locals(fi, x, stmt)) for x in call.args[:2]]
    if any(x is None for x in a):
        return None
    return a[0] if len(a) == 1 else a[1].sub(a[0])


class _Proj(ast.NodeTransformer):
    """(a, b)[0] -> a: a component picked out of a literal pair is that component."""

    def visit_Subscript(self, n):
        self.generic_visit(n)
        if isinstance(n.value, (ast.Tuple, ast.List)) and isinstance(n.slice, ast.Constant) and isinstance(n.slice.value, int) and not isinstance(n.slice.value, bool) \
                and not any(isinstance(x, ast.Starred) for x in n.value.elts) and -len(n.value.elts) <= n.slice.value < len(n.value.elts):
            return n.value.elts[n.slice.value]
        return n


def _bind_target(tgt, val):
    """{name: expression} for `tgt = val`: a tuple target takes the components of a literal tuple, or projections val[i]."""
    if isinstance(tgt, ast.Name):
        return {tgt.id: val}
    if isinstance(tgt, (ast.Tuple, ast.List)) and not any(isinstance(x, ast.Starred) for x in tgt.elts):
        env = {}
        for k, t in enumerate(tgt.elts):
            sub = _bind_target(t, _Proj().visit(ast.Subscript(value=copy.deepcopy(val), slice=ast.Constant(value=k), ctx=ast.Load())))
            if sub is None:
                return None
            env.update(sub)
        return env
    return None


ELEM = '_x'


def _fresh(e):
    """A copy that may be substituted into again (the element variable of an element form is meant to be replaced on composition)."""
    e = copy.deepcopy(e)
    for n in ast.walk(e):
        if getattr(n, '_final', False):
            del n._final
    return e


MUTATORS = ('insert', 'sort', 'reverse', 'pop', 'remove', 'clear')


def _is_empty_list(v):
    return (isinstance(v, ast.List) and not v.elts) or (isinstance(v, ast.Call) and u(v.func) == 'list' and not v.args and not v.keywords)


def append_fill(fi, name, init):
    """`name = []` (statement `init`) filled by ONE loop appending exactly one element per iteration.
    -> (bad, loop, pos, call): `bad` lists the concrete losses of the one-to-one in-order image (conditional / second append,
    break / continue / return in the loop, insert(), sort(), stores into the list ...); raises Undecided for shapes outside the vocabulary."""
    calls = [c for c in calls_in(fi.node) if isinstance(c.func, ast.Attribute) and isinstance(c.func.value, ast.Name) and c.func.value.id == name]
    # when the name is bound more than once (a parameter rebound per branch), only the calls made while this definition is the live one
    from ..astutil import assigns_to
    a = fi.node.args
    if len(assigns_to(fi.node, name)) > 1 or name in [x.arg for x in a.posonlyargs + a.args + a.kwonlyargs]:
        calls = [c for c in calls if _stmt_of(fi, c) is not None and reaching_def(fi.node, name, _stmt_of(fi, c)) is init]
    appends = [c for c in calls if c.func.attr == 'append' and len(c.args) == 1 and not c.keywords and not isinstance(c.args[0], ast.Starred)]
    mut = [c for c in calls if c.func.attr in MUTATORS]
    grow = [c for c in calls if c.func.attr in ('extend', '__iadd__', '__setitem__', '__delitem__')]
    if grow:
        raise Undecided(f'{fi.name}: {name} is also changed through `{u(grow[0])[:60]}`')
    stores = [n for n in ast.walk(fi.node) if isinstance(n, ast.Subscript) and isinstance(n.ctx, (ast.Store, ast.Del)) and u(n.value) == name]
    bad = [u(c)[:70] for c in mut] + [f'{type(n.ctx).__name__.lower()} {u(n)}' for n in stores]
    loop = pos = None
    if len(appends) == 1:
        pos = _stmt_of(fi, appends[0])
        path = block_path(fi.node, pos)
        ipath = block_path(fi.node, init)
        owners = [o for (_, _, o) in path[1:]]
        owners = owners[len(ipath) - 1:] if [o for (_, _, o) in ipath[1:]] == owners[:len(ipath) - 1] else None
        if owners is None:
            raise Undecided(f'{fi.name}: {name} is filled outside the block that creates it')
        loops = [o for o in owners if isinstance(o, (ast.For, ast.While, ast.AsyncFor))]
        if not (isinstance(pos, ast.Expr) and pos.value is appends[0]):
            bad.append(f'{u(appends[0])[:70]} is not a statement of its own')
        elif len(loops) != 1 or not isinstance(loops[0], ast.For):
            bad.append(f'append inside {len(loops)} loops')
        else:
            loop = loops[0]
            inner = owners[owners.index(loop) + 1:]
            if inner:
                bad.append(f'append only under `{u(inner[0]).splitlines()[0][:60]}`')
            if any(not isinstance(o, (ast.With, ast.AsyncWith)) for o in owners[:owners.index(loop)]):
                raise Undecided(f'{fi.name}: the loop filling {name} is nested in `{u(owners[0]).splitlines()[0][:60]}`')
            esc = [x for x in stmts_in(loop.body) if isinstance(x, (ast.Break, ast.Continue, ast.Return))]
            if esc:
                bad.append(f'{[u(x) for x in esc]} in the loop: an iteration can end without an element')
            if loop.orelse:
                bad.append('loop has an else clause')
    elif appends:
        bad.append(f'{len(appends)} append calls')
    elif not bad and not calls:
        bad.append(f'{name} is never filled (no element is ever appended)')
    elif not bad:
        raise Undecided(f'{fi.name}: {name} starts empty and is filled by something other than append calls')
    return bad, loop, pos, (appends[0] if appends else None)


def _stmt_of(fi, node):
    """Innermost statement containing an expression node (identity)."""
    best = None
    for s in stmts_in(fi.node.body):
        hdr = [s.test] if isinstance(s, (ast.If, ast.While)) else [s.iter, s.target] if isinstance(s, (ast.For, ast.AsyncFor)) else \
            [i.context_expr for i in s.items] if isinstance(s, (ast.With, ast.AsyncWith)) else [] if isinstance(s, (ast.Try, ast.FunctionDef, ast.ClassDef, ast.AsyncFunctionDef)) else [s]
        if any(x is node for h in hdr for x in ast.walk(h)):
            best = s
    return best


def append_elt(fi, loop, pos, call):
    """The appended element over the loop variable: locals bound earlier in the same iteration are substituted."""
    env = {}
    for x in loop.body:
        if x is pos:
            break
        if isinstance(x, ast.Assign) and len(x.targets) == 1 and isinstance(x.targets[0], ast.Name):
            env[x.targets[0].id] = subst(x.value, env)
        elif any(isinstance(t, ast.Name) and isinstance(t.ctx, ast.Store) for t in ast.walk(x)):
            raise Undecided(f'{fi.name}: `{u(x).splitlines()[0][:60]}` binds a local inside the filling loop in a way the rule does not follow')
    return _fresh(subst(call.args[0], env))


def elem_form_of_def(fi, d, depth=0):
    """Element form of the sequence a simple definition statement `name = <value>` creates (an empty list is followed into the
    loop that fills it)."""
    v = def_value(d)
    if _is_empty_list(v) and isinstance(d, ast.Assign):
        name = d.targets[0].id
        bad, loop, pos, call = append_fill(fi, name, d)
        if bad or loop is None:
            return f'{name} (filled in a way that is not one element per iteration: {bad[:2]})', ast.Name(id=ELEM, ctx=ast.Load())
        root, inner = elem_form(fi, loop.iter, loop, depth + 1)
        env = _bind_target(loop.target, inner)
        if env is None:
            return u(loop.iter), ast.Name(id=ELEM, ctx=ast.Load())
        return root, _fresh(_Proj().visit(subst(append_elt(fi, loop, pos, call), env)))
    return elem_form(fi, v, d, depth + 1)


def as_comprehension(fi, d):
    """(value, statement) of a definition: `xs = []` filled by one loop with exactly one unconditional append per iteration IS the
    comprehension [<element> for <target> in <iterable>] evaluated at that loop; any other definition is returned as it stands
    (an empty list filled in another way stays an empty list: nothing is aligned with it)."""
    v = def_value(d)
    if isinstance(d, ast.Assign) and _is_empty_list(v):
        try:
            bad, loop, pos, call = append_fill(fi, d.targets[0].id, d)
            if not bad and loop is not None:
                comp = ast.ListComp(elt=append_elt(fi, loop, pos, call), generators=[ast.comprehension(target=loop.target, iter=loop.iter, ifs=[], is_async=0)])
                return ast.copy_location(comp, loop), loop
        except Undecided:
            pass
    return v, d


def deref(fi, e, stmt):
    """A local that names a list built by an append loop stands for the equivalent comprehension."""
    if isinstance(e, ast.Name):
        d = reaching_def(fi.node, e.id, stmt)
        if d not in (None, PARAM, AMBIGUOUS) and _is_empty_list(def_value(d)):
            v, vs = as_comprehension(fi, d)
            if vs is not d:
                return v, vs
    return e, stmt


def elem_form(fi, e, stmt, depth=0):
    """(root, elt): `e`, evaluated at `stmt`, is an order-preserving one-to-one image of the sequence `root` (text; '?name' for a
    local with several reaching definitions, i.e. one per input channel), and its k-th element is `elt` with _x := root[k].
    Follows locals, list()/tuple(), comprehensions / map (tuple targets destructure the element).  Everything else - sorted(),
    set(), a filtered comprehension, a slice ... - is its own root: alignment with anything upstream is lost there."""
    x = ast.Name(id=ELEM, ctx=ast.Load())
    e = _unwrap_seq(e)
    if depth > 8:
        return u(e), x
    if isinstance(e, ast.Name):
        d = reaching_def(fi.node, e.id, stmt) if stmt is not None else None
        if d is PARAM:
            return e.id, x
        v = def_value(d) if d not in (None, AMBIGUOUS) else None
        if v is None:
            return f'?{e.id}', x
        return elem_form_of_def(fi, d, depth)
    ef = each_form(e)
    if ef is not None:
        root, inner = elem_form(fi, ef[0], stmt, depth + 1)
        env = _bind_target(ef[1], inner)
        if env is None:
            return u(e), x
        return root, _fresh(_Proj().visit(subst(ef[2], env)))
    return u(e), x


def check_sequence_files(ctx):
    rep, m = ctx.rep, ctx.model
    fi = m.func(f'{CM}.get_sequence_files')
    rep.functions.add(fi.qualname)
    gm = guard_map(fi.node)
    explicit, listfile, ldir = fi.params()[:3]
    rets = [s for s in ret_tuple(fi) if isinstance(s.value, ast.Tuple) and len(s.value.elts) == 2 and not all(is_none(e) for e in s.value.elts)]
    rep.require(len(rets) == 1, 'get_sequence_files: expected one (ids, files) return')
    r = rets[0]
    ids_e, files_e = r.value.elts
    # ids / files are built once, after the channel-specific part: ids[k] = get_file_id(<label source k>), files = from_paths(<path k>).
    # Both are followed element-wise down to the locals the channels define (one list each, or one list of pairs).
    def bound(e):
        # (value, statement at which it is evaluated): a local stands for the expression it was bound to
        d = reaching_def(fi.node, e.id, r) if isinstance(e, ast.Name) else None
        if isinstance(e, ast.Name):
            return (def_value(d), d) if d not in (None, PARAM, AMBIGUOUS) else (None, None)
        return e, r
    (idv, idd), (flv, fld) = bound(ids_e), bound(files_e)
    okf = isinstance(flv, ast.Call) and m.resolve_call(fi, flv) == 'gambit.seq.SequenceFile.from_paths' and bool(flv.args) and not isinstance(flv.args[0], ast.Starred)
    froot, felt = elem_form(fi, flv.args[0], fld) if okf else (None, None)
    iroot, ielt = elem_form(fi, ids_e, r) if idv is not None else (None, None)
    oki = isinstance(ielt, ast.Call) and m.resolve_call(fi, ielt) == f'{CM}.get_file_id' and bool(ielt.args) and not isinstance(ielt.args[0], ast.Starred)
    chan = okf and oki and froot.startswith('?') and iroot.startswith('?')
    rep.add('A1', fi.site(r), 'files = SequenceFile.from_paths(<paths>) and ids = [get_file_id(p) for p in <path strings>]: one entry per path, no filter, no sort', okf and oki and chan,
            expected='order-preserving one-to-one maps of the lists the channels define', found=(u(flv), u(idv), f'roots: {froot} / {iroot}'), stmt='ids/files construction')
    rep.require(chan, 'get_sequence_files: ids/files construction outside the vocabulary')
    pv, sv = froot[1:], iroot[1:]
    isrc = ielt.args[0]
    fmt = get_arg(flv, 1, 'format')
    comp = get_arg(flv, 2, 'compression')
    rep.add('A1', fi.site(flv), "files are declared FASTA with content-based compression detection", is_const(fmt, 'fasta') and is_const(comp, 'auto'), expected="('fasta', 'auto')", found=(u(fmt), u(comp)), stmt='file format')
    # per branch: path k and label source k derive from element k of one root list
    branches = {}
    for s in stmts_in(fi.node.body):
        if isinstance(s, ast.Assign) and isinstance(s.targets[0], ast.Name) and s.targets[0].id in (pv, sv):
            key = 'explicit' if ('true', explicit) in path_atoms(gm[s]) else 'listfile' if ('isnot', 'None', listfile) in path_atoms(gm[s]) else None
            rep.require(key is not None, f'get_sequence_files: {u(s)} is not under the explicit / listfile branch')
            branches.setdefault(key, {})[s.targets[0].id] = s
    rep.floor('A1', 'input channels in get_sequence_files', len(branches), 2)
    path_elt = {}
    for key, d in sorted(branches.items()):
        ok = pv in d and sv in d
        roots = {}
        if ok:
            forms = {name: elem_form_of_def(fi, s) for name, s in d.items()}
            roots = {name: f[0] for name, f in forms.items()}
            path_elt[key] = _Proj().visit(subst(felt, {ELEM: forms[pv][1]}))
            lab = u(_Proj().visit(subst(isrc, {ELEM: forms[sv][1]})))
            roots['label source'] = lab
            roots['path'] = u(path_elt[key])
        same = ok and len({roots[pv], roots[sv]}) == 1
        # the label of element k is derived from the very path of element k (as given, or as text): never from another value
        same = same and lab in {f(x) for x in (ELEM, u(path_elt[key])) for f in (lambda t: t, lambda t: f'str({t})', lambda t: f'os.fspath({t})')}
        if key == 'explicit':
            same = same and roots[pv] == explicit
        else:
            # lines = list(read_lines(listfile, skip_empty=True))
            root = roots.get(pv, '')
            same = same and root.startswith('read_lines(') and listfile in root
        rep.add('A1', fi.site(d.get(pv) or d.get(sv)), f'{key} channel: paths and label strings are order-preserving images of the same list', same, expected='one common root', found=roots, stmt=f'{key} alignment')
    lp = branches.get('listfile', {}).get(pv)
    if lp is not None:
        pe = path_elt.get('listfile')
        okl = pe is not None and u(pe) == f'Path({ldir}) / {ELEM}'
        rep.add('A1', fi.site(lp), 'list-file paths are resolved against the base directory', okl, expected=f'Path({ldir}) / line', found=u(pe) if pe is not None else u(lp.value), stmt='listfile base dir')
        rl = [c for c in calls_in(fi.node) if m.resolve_call(fi, c) == 'gambit.util.io.read_lines']
        rlp = m.func('gambit.util.io.read_lines').params()
        ksk = rlp.index('skip_empty') if 'skip_empty' in rlp else None
        rep.add('A1', fi.site(rl[0] if rl else lp), 'empty lines of the list file are skipped (no phantom row)', len(rl) == 1 and get_arg(rl[0], ksk, 'skip_empty') is not Ellipsis and is_const(get_arg(rl[0], ksk, 'skip_empty'), True), expected='skip_empty=True', found=[u(c) for c in rl], stmt='listfile lines')
    none_ret = [s for s in ret_tuple(fi) if s is not r]
    rep.account_returns('A1', fi, [r] + none_ret[:1], '(ids, files) pair')
    rep.add('A1', fi.site(none_ret[0] if none_ret else r), 'no input channel: (None, None)', len(none_ret) == 1 and u(none_ret[0].value) == '(None, None)', expected='return None, None', found=[u(x.value) for x in none_ret], stmt='no channel')
    # from_paths body
    fp = m.func('gambit.seq.SequenceFile.from_paths')
    rep.functions.add(fp.qualname)
    rr = [s for s in fp.node.body if isinstance(s, ast.Return)]
    p = fp.params()
    okp = len(rr) == 1 and isinstance(rr[0].value, ast.ListComp) and u(rr[0].value.generators[0].iter) == p[1] and not rr[0].value.generators[0].ifs \
        and u(rr[0].value.elt) == f'cls({u(rr[0].value.generators[0].target)}, {p[2]}, {p[3]})'
    rep.add('A1', fp.site(), 'from_paths builds one SequenceFile per path, in order, with the given format and compression', okp, expected='[cls(path, format, compression) for path in paths]', found=[u(x.value) for x in rr], stmt='from_paths')
    frl = m.func('gambit.util.io.read_lines')
    rep.functions.add(frl.qualname)
    fl = [s for s in stmts_in(frl.node.body) if isinstance(s, (ast.For, ast.While))]
    wv = [u(i.optional_vars) for s in stmts_in(frl.node.body) if isinstance(s, ast.With) for i in s.items if i.optional_vars is not None and isinstance(i.context_expr, ast.Call)
          and u(i.context_expr.func) == 'maybe_open' and u(i.context_expr.args[0]) == frl.params()[0]]
    loop = fl[0] if len(fl) == 1 and isinstance(fl[0], ast.For) and isinstance(fl[0].target, ast.Name) and not fl[0].orelse else None
    inside = {id(n) for n in ast.walk(loop)} if loop is not None else set()
    stray = [u(n) for n in ast.walk(frl.node) if isinstance(n, (ast.Yield, ast.YieldFrom)) and (id(n) not in inside or isinstance(n, ast.YieldFrom))]
    okr = loop is not None and len(wv) == 1 and u(loop.iter) == wv[0] and not stray
    rep.add('A1', frl.site(), 'read_lines yields the lines of the file in file order', okr, expected='for line in file: ... yield line', found=[u(f).splitlines()[0][:60] for f in fl] + stray, stmt='read_lines order')
    rep.require(okr, 'read_lines: not one loop over the opened file containing every yield')
    # what one iteration yields, by value flow: for every setting of the two flags and for an empty / non-empty stripped line,
    # every feasible path yields exactly the stripped line - or nothing, and that only when the line is empty and skip_empty is set
    rep.require('strip' in frl.params() and 'skip_empty' in frl.params(), 'read_lines: parameters strip / skip_empty not found')
    L = loop.target.id
    forms = {'strip': f'{L}.strip()', 'rstrip_nl': f"{L}.rstrip('\\n')", 'raw': L}
    paths = sym_iteration(loop.body, 'read_lines')
    bad, seen = [], 0
    for sflag in (True, False):
        for kflag in (True, False):
            for nonempty in (True, False):
                asg = {'strip': sflag, 'skip_empty': kflag, forms['strip']: nonempty, forms['rstrip_nl']: nonempty}
                want = [forms['strip' if sflag else 'rstrip_nl']] if (nonempty or not kflag) else []
                for guards, ys, ends in paths:
                    if not feasible(guards, asg):
                        continue
                    seen += 1
                    got = [u(v) for v in ys]
                    rep.require(all(g in forms.values() for g in got), f'read_lines: yields `{[g for g in got if g not in forms.values()][:1]}`, not the line, its strip() or its rstrip of the newline')
                    if got != want or ends != 'next':
                        bad.append(f'strip={sflag}, skip_empty={kflag}, {"non-empty" if nonempty else "empty"} line: yields {got}{" and stops" if ends != "next" else ""}, expected {want} (path {sorted(path_atoms(guards))})')
    rep.add('A1', frl.site(loop), 'every line is yielded exactly once, stripped (whitespace when strip, else the newline); only an empty line is dropped, and only when skip_empty', not bad and seen >= 8,
            expected='line.strip() if strip else line.rstrip(newline); dropped iff skip_empty and empty', found=bad[:4] or f'{len(paths)} paths', stmt='read_lines lines')
    ds, dk = frl.param_default('strip'), frl.param_default('skip_empty')
    rep.add('A1', frl.site(), 'read_lines keeps its declared defaults (strip=True, skip_empty=False): callers that pass nothing rely on them', is_const(ds, True) and is_const(dk, False), expected='strip=True, skip_empty=False',
            found=(u(ds), u(dk)), stmt='read_lines defaults')
    # the list-file call of get_sequence_files: names are stripped of surrounding whitespace and blank lines give no row
    gsf = m.func(f'{CM}.get_sequence_files')
    for c in [c for c in calls_in(gsf.node) if m.resolve_call(gsf, c) == 'gambit.util.io.read_lines']:
        eff = get_arg(c, frl.params().index('strip'), 'strip')
        eff = ds if eff is None else eff
        rep.add('A1', gsf.site(c), 'list-file lines are read stripped (explicit argument or the default)', eff is not Ellipsis and is_const(eff, True), expected='strip=True in effect', found=u(eff) if eff is not Ellipsis else '*args', stmt='listfile strip')


def unfold_reduce(m, fi, e):
    """functools.reduce(f, (a, b, ...), init) over a literal tuple IS f(f(init, a), b) ...: the fold is written out."""
    class T(ast.NodeTransformer):
        def visit_Call(self, n):
            self.generic_visit(n)
            if m.resolve(fi.module, n.func) == 'functools.reduce' and not n.keywords and 2 <= len(n.args) <= 3 and isinstance(n.args[1], (ast.Tuple, ast.List)) \
                    and not any(isinstance(x, ast.Starred) for x in list(n.args) + list(n.args[1].elts)) and (len(n.args) == 3 or n.args[1].elts):
                elts = list(n.args[1].elts)
                acc = n.args[2] if len(n.args) == 3 else elts.pop(0)
                for x in elts:
                    acc = ast.Call(func=copy.deepcopy(n.args[0]), args=[acc, x], keywords=[])
                return ast.copy_location(acc, n) if isinstance(acc, ast.Call) else acc
            return n
    return ast.fix_missing_locations(T().visit(copy.deepcopy(e)))


def check_labels(ctx):
    rep, m = ctx.rep, ctx.model
    # ---- strip_seq_file_ext: the returned value is strip_extensions(strip_extensions(<filename>, <gzip table>), <FASTA table>) on every
    # path (two assignments, a loop over the two tables, a nested call, a fold - all the same term); the tables are taken where the
    # function now lives
    fs = m.func(f'{CM}.strip_seq_file_ext')
    rep.functions.add(fs.qualname)
    SE = f'{CM}.strip_extensions'

    def table(fi_, t):
        try:
            return tuple(m.const_value(fi_.module, t))
        except (Undecided, TypeError):
            return None

    def peel(fi_, v):
        """(innermost operand, [tables from the first applied to the last], [table texts]) of nested strip_extensions(., table) calls"""
        layers = []
        while isinstance(v, ast.Call) and m.resolve_call(fi_, v) == SE and len(v.args) == 2 and not v.keywords and not any(isinstance(a, ast.Starred) for a in v.args):
            layers.append(v.args[1])
            v = v.args[0]
        layers.reverse()
        return v, [table(fi_, t) for t in layers], [u(t) for t in layers]

    def tables_ok(tb):
        return len(tb) == 2 and tb[0] == ('.gz',) and tb[1] is not None and '.fasta' in tb[1] and '.gz' not in tb[1]

    order, chained, shown, opaque = [], True, [], []
    for guards, v, _ in sym_returns(fs, 'strip_seq_file_ext'):
        v = unfold_reduce(m, fs, v)
        shown.append(u(v))
        base, tb, txt = peel(fs, v)
        chained = chained and isinstance(base, ast.Name) and base.id == fs.params()[0] and len(tb) == 2
        opaque += [t for t, x in zip(txt, tb) if x is None]
        order.append(tb)
    rep.add('A2', fs.site(), 'each stripping step works on the result of the previous one', bool(order) and chained, expected='strip_extensions(strip_extensions(filename, GZIP), FASTA)', found=shown, stmt='strip chain')
    # a table that is not a constant cannot be compared (undecidable) - unless the chain itself is already broken, which stands
    rep.require(not opaque, f'strip_seq_file_ext: the extension table {opaque[:1]} is not a constant')
    rep.add('A2', fs.site(), 'the gzip extension is stripped before the FASTA extension (genome.fasta.gz -> genome)', bool(order) and all(tables_ok(o) for o in order), expected='GZIP then FASTA', found=shown, stmt='strip order')
    gz, fa = (order[0] + [None, None])[:2] if order else (None, None)
    rep.add('A2', (fs.module.relpath, fs.node.lineno, f'{CM}.FASTA_EXTENSIONS'), 'extension tables: .gz; the usual FASTA suffixes, longer before their prefixes (.fasta before .fa)',
            bool(order) and all(o == order[0] for o in order) and gz == ('.gz',) and fa is not None and '.fasta' in fa and '.fa' in fa and '.fna' in fa
            and all(not (b.startswith(a) and fa.index(a) < fa.index(b)) for a in fa for b in fa if a != b),
            expected="('.gz',) / .fasta ... .fa", found=(gz, fa), stmt='extension tables')
    # ---- get_file_id: label derivation, decided on the value returned along every path (over the parameters), whatever the statement
    # shape: with both flags set (the defaults the CLI uses) the label is <extension strip>(basename(fspath(path))); with a flag
    # cleared only a prefix of that chain is applied, and a stage is never applied when its flag is definitely cleared.  The
    # extension strip is strip_seq_file_ext(.) or, written out, the two strip_extensions steps with the same tables in the same order.
    fi = m.func(f'{CM}.get_file_id')
    rep.functions.add(fi.qualname)
    p = fi.params()
    EXT = 'strip of the gzip, then the FASTA extension'
    full = ['os.fspath', 'os.path.basename', EXT]

    def stages(v):
        out = []
        while isinstance(v, ast.Call) and not v.keywords and not any(isinstance(a, ast.Starred) for a in v.args):
            r = m.resolve_call(fi, v)
            if r == SE:
                v, tb, txt = peel(fi, v)
                out.append(EXT if order and tb == order[0] and tables_ok(tb) else f'strip_extensions over {txt}')
            elif len(v.args) == 1:
                out.append(EXT if r == f'{CM}.strip_seq_file_ext' else (r or u(v.func)))
                v = v.args[0]
            else:
                break
        return list(reversed(out)) if isinstance(v, ast.Name) and v.id == p[0] else None

    paths = sym_returns(fi, 'get_file_id')
    okl, ndef, found = True, 0, []
    for guards, v, _ in paths:
        v = unfold_reduce(m, fi, v)
        st = stages(v)
        found.append((sorted(path_atoms(guards)), u(v)))
        if feasible(guards, {p[1]: True, p[2]: True}):
            ndef += 1
            okl = okl and st == full
        else:
            okl = okl and bool(st) and st == full[:len(st)]
            if st and not feasible(guards, {p[1]: True}):
                okl = okl and full[1] not in st
            if st and not feasible(guards, {p[2]: True}):
                okl = okl and full[2] not in st
    rep.add('A2', fi.site(), 'label = path string -> basename (directory stripped) -> sequence-file extensions stripped', okl and ndef >= 1,
            expected='strip_seq_file_ext(os.path.basename(os.fspath(path))) when strip_dir and strip_ext; otherwise a prefix of that chain', found=found, stmt='label derivation')
    for name in ('strip_dir', 'strip_ext'):
        d = fi.param_default(name)
        rep.add('A2', fi.site(), f'{name} defaults to True', d is not None and is_const(d, True), expected='True', found=u(d), stmt=f'{name} default')
    gsf = m.func(f'{CM}.get_sequence_files')
    for name in ('strip_dir', 'strip_ext'):
        d = gsf.param_default(name)
        rep.add('A2', gsf.site(), f'get_sequence_files: {name} defaults to True', d is not None and is_const(d, True), expected='True', found=u(d), stmt=f'gsf {name} default')
    check_strip_extensions(ctx)


def check_strip_extensions(ctx):
    """strip_extensions is a first-match search: the FIRST element e of `extensions` with filename.endswith(e) decides, the
    result is filename[:-len(e)], and filename itself when nothing matches.  Three spellings of such a search are evaluated:
    an early `return` in the loop, an assignment followed by `break`, and next(<generator over the matches>, None)."""
    rep, m = ctx.rep, ctx.model
    fe = m.func(f'{CM}.strip_extensions')
    rep.functions.add(fe.qualname)
    gme = guard_map(fe.node)
    fn, exts = fe.params()[:2]
    rets = [s for s in stmts_in(fe.node.body) if isinstance(s, ast.Return)]
    loops = [s for s in stmts_in(fe.node.body) if isinstance(s, (ast.For, ast.While))]
    nexts = [c for c in calls_in(fe.node) if isinstance(c.func, ast.Name) and c.func.id == 'next']
    stores = [s for s in stmts_in(fe.node.body) if isinstance(s, (ast.Assign, ast.AugAssign, ast.AnnAssign)) and fn in {n.id for t in (s.targets if isinstance(s, ast.Assign) else [s.target]) for n in ast.walk(t) if isinstance(n, ast.Name)}]
    it = e = cond = hit = miss = None
    if len(loops) == 1 and isinstance(loops[0], ast.For) and not nexts:
        loop = loops[0]
        rep.require(isinstance(loop.target, ast.Name) and not loop.orelse and loop in fe.node.body, f'strip_extensions: loop `{u(loop).splitlines()[0]}` is not a plain top-level for loop')
        it, e = u(loop.iter), loop.target.id
        inner = [r for r in rets if any(o is loop for (_, _, o) in block_path(fe.node, r))]
        outer = [r for r in rets if not any(r is x for x in inner)]
        brk = [s for s in stmts_in(loop.body) if isinstance(s, ast.Break)]
        if len(inner) == 1 and not brk and not stores:
            cond, hit = path_atoms(gme[inner[0]]), u(inner[0].value)
        elif not inner and len(brk) == 1 and len(stores) == 1 and isinstance(stores[0], ast.Assign):
            blk = block_path(fe.node, brk[0])[-1][0]
            # the match is recorded and the search stops at once: [filename = <hit>, break]
            if len(blk) == 2 and blk[0] is stores[0]:
                cond, hit = path_atoms(gme[brk[0]]), u(stores[0].value)
            else:
                cond, hit = path_atoms(gme[stores[0]]), f'{u(stores[0].value)} (search not stopped by the break)'
        elif not inner and not brk and stores:
            cond, hit = path_atoms(gme[stores[0]]), f'{u(stores[0].value)} (search continues after a match)'
        else:
            rep.require(False, f'strip_extensions: the search loop has {len(inner)} returns, {len(brk)} breaks and {len(stores)} stores to {fn}: not a first-match search the rule can evaluate')
        miss = u(outer[0].value) if len(outer) == 1 and fe.node.body[-1] is outer[0] else [u(r.value) for r in outer]
    elif len(nexts) == 1 and not loops and not stores:
        # the generator may be bound to a local first: work on the returned values with the locals substituted
        paths = sym_returns(fe, 'strip_extensions')
        found_next = {}
        for guards, v, _ in paths:
            for x in [v] + [t for t, _ in guards]:
                for n in ast.walk(x):
                    if isinstance(n, ast.Call) and isinstance(n.func, ast.Name) and n.func.id == 'next':
                        found_next.setdefault(u(n), n)
        rep.require(len(found_next) == 1, f'strip_extensions: {len(found_next)} different next() searches after substitution')
        N, c = next(iter(found_next.items()))
        gen = c.args[0] if c.args else None
        rep.require(isinstance(gen, ast.GeneratorExp) and len(gen.generators) == 1 and not gen.generators[0].is_async and isinstance(gen.generators[0].target, ast.Name)
                    and len(c.args) == 2 and not c.keywords and not any(isinstance(a, ast.Starred) for a in c.args),
                    f'strip_extensions: `{N[:80]}` is not next(<generator expression>, <default>)')
        g = gen.generators[0]
        it, e = u(g.iter), g.target.id
        cond = set()
        for t in g.ifs:
            cond |= atoms(t, True) or {('?', u(t))}
        if len(paths) == 1 and not paths[0][0] and u(paths[0][1]) == N:
            # the search result IS the returned value: the generator yields the stripped name, the default is the no-match value
            hit, miss = u(gen.elt), u(c.args[1])
        else:
            # the search yields the matching extension (None when there is none) and the outcome is decided on `is None`
            rep.require(is_none(c.args[1]), f'strip_extensions: the outcome of `{N[:80]}` is tested, but its default is not None')
            for guards, v, _ in paths:
                at = path_atoms(guards)
                if at == {('is',) + tuple(sorted(['None', N]))} and miss is None:
                    miss = u(v)
                elif at == {('isnot',) + tuple(sorted(['None', N]))} and hit is None:
                    hit = u(v).replace(N, e) if u(gen.elt) == e else f'{u(v)} with {N} yielding {u(gen.elt)}'
                else:
                    rep.require(False, f'strip_extensions: return under {sorted(at)} is not decided by `{N} is None` alone')
    elif not loops and not nexts:
        pass    # no search at all: reported below
    else:
        rep.require(False, f'strip_extensions: {len(loops)} loops / {len(nexts)} next() calls: not a first-match search the rule can evaluate')
    oke = it == exts and cond == {('true', f'{fn}.endswith({e})')} and hit == f'{fn}[:-len({e})]' and miss == fn
    rep.add('A2', fe.site(), 'at most one matching suffix is removed, exactly its length', oke, expected=f'first ext in {exts} with {fn}.endswith(ext): {fn}[:-len(ext)]; none: {fn}',
            found=dict(over=it, condition=sorted(cond) if cond is not None else None, match=hit, no_match=miss), stmt='strip_extensions')


def value_cases(fi, gm, e, stmt, depth=0):
    """[(condition atoms, value, statement)]: the expressions a value can come from and the condition under which it does - the arms
    of a conditional expression, or the assignments of a local that is bound on several branches (each under its path condition)."""
    if isinstance(e, ast.IfExp):
        return [(set(atoms(e.test, pol) or ()) | at, v, vs) for pol, arm in ((True, e.body), (False, e.orelse)) for at, v, vs in value_cases(fi, gm, arm, stmt, depth + 1)]
    if isinstance(e, ast.Name) and depth < 6:
        d = reaching_def(fi.node, e.id, stmt)
        if d is AMBIGUOUS:
            out = []
            for s in stmts_in(fi.node.body):
                if isinstance(s, ast.Assign) and len(s.targets) == 1 and isinstance(s.targets[0], ast.Name) and s.targets[0].id == e.id:
                    out += [(path_atoms(gm[s]) | at, v, vs) for at, v, vs in value_cases(fi, gm, *as_comprehension(fi, s), depth + 1)]
            return out
        v = def_value(d) if d not in (None, PARAM) else None
        if isinstance(v, ast.IfExp):
            return value_cases(fi, gm, v, d, depth + 1)
    return [(set(), e, stmt)]


def _contradictory(at):
    return any((('false',) + a[1:]) in at for a in at if a[0] == 'true') or any((('isnot',) + a[1:]) in at for a in at if a[0] == 'is')


def check_query_paths(ctx):
    rep, m = ctx.rep, ctx.model
    # ---- query_cmd
    fc = m.func('gambit.cli.query.query_cmd')
    rep.functions.add(fc.qualname)
    gmc = guard_map(fc.node)
    # every way the command reaches query(): directly, or through query_parse (whose own body is checked below).  A case is one
    # call together with the condition under which its operands have the given values (locals bound per branch are split).
    cases = []
    for call in calls_in(fc.node):
        r = m.resolve_call(fc, call)
        if r not in ('gambit.query.query', 'gambit.query.query_parse'):
            continue
        cst = _stmt_of(fc, call)
        rep.require(cst is not None and cst in gmc and len(call.args) >= 2 and not any(isinstance(a, ast.Starred) for a in call.args), f'query_cmd: {u(call)[:60]} cannot be located / has starred operands')
        base = path_atoms(gmc[cst])
        if r == 'gambit.query.query_parse':
            cases.append(dict(kind='parse', call=call, stmt=cst, atoms=base))
            continue
        i0 = get_kw(call, 'inputs')
        for at_s, sv_, ss_ in value_cases(fc, gmc, call.args[1], cst):
            for at_i, iv_, is_ in (value_cases(fc, gmc, i0, cst) if i0 is not None else [(set(), None, cst)]):
                at = base | at_s | at_i
                if not _contradictory(at):
                    cases.append(dict(kind='query', call=call, stmt=cst, atoms=at, S=sv_, Sst=ss_, I=iv_, Ist=is_))
    sigc = [k for k in cases if ('true', 'sigfile') in k['atoms']]
    filc = [k for k in cases if ('false', 'sigfile') in k['atoms']]
    rest = [k for k in cases if not any(k is x for x in sigc + filc)]
    split = len(sigc) == 1 and len(filc) == 1 and not rest
    rep.add('A5', fc.site(cases[0]['call'] if cases else None), 'exactly one channel is used: signature file if given, genome files otherwise', split, expected='one query under `sigfile`, one under `not sigfile`',
            found=[(k['kind'], sorted(k['atoms'])) for k in cases], stmt='channel split')
    rep.require(split, 'query_cmd: the query()/query_parse() calls do not split into one signature-file and one genome-file case')
    sg, fl = sigc[0], filc[0]

    def local_def(e, at_):
        d = reaching_def(fc.node, e.id, at_) if isinstance(e, ast.Name) else None
        return def_value(d) if d not in (None, PARAM, AMBIGUOUS) else None

    # ---- genome-file channel (A3): labels and files are the two components of one get_sequence_files call, each input carries its
    # own label and file, and the signatures are computed from those files in that order
    gs = [x for x in calls_in(fc.node) if m.resolve_call(fc, x) == f'{CM}.get_sequence_files']
    gst = next((s_ for s_ in stmts_in(fc.node.body) if isinstance(s_, ast.Assign) and gs and s_.value is gs[0]), None)
    comp = [u(e_) for e_ in gst.targets[0].elts] if gst is not None and isinstance(gst.targets[0], ast.Tuple) else []
    c, st = fl['call'], fl['stmt']
    if fl['kind'] == 'parse':
        files_e, labels = c.args[1], get_kw(c, 'file_labels')
        files_root = align.source(m, fc, *deref(fc, files_e, st))[0]
        labels_root = align.source(m, fc, *deref(fc, labels, st))[0] if labels is not None else None
        unpack_ok = comp == [u(labels), u(files_e)]
        via = 'query_parse'
    else:
        # what query_parse would do, done in the command itself
        sval = fl['S'] if not isinstance(fl['S'], ast.Name) else (local_def(fl['S'], fl['Sst']) or fl['S'])
        files_root = align.source(m, fc, *deref(fc, fl['S'], fl['Sst']))[0]
        files_e = sval.args[1] if isinstance(sval, ast.Call) and m.resolve_call(fc, sval) == 'gambit.sigs.calc.calc_file_signatures' and len(sval.args) > 1 else None
        ival = fl['I'] if not isinstance(fl['I'], ast.Name) else (as_comprehension(fc, reaching_def(fc.node, fl['I'].id, fl['Ist']))[0] if reaching_def(fc.node, fl['I'].id, fl['Ist']) not in (None, PARAM, AMBIGUOUS) else None)
        zef = each_form(ival) if ival is not None else None
        zit = zef[0] if zef is not None else None
        strict = isinstance(zit, ast.Call) and m.resolve_call(fc, zit) == 'gambit.util.misc.zip_strict' and len(zit.args) == 2 and not any(isinstance(a, ast.Starred) for a in zit.args)
        rep.add('A3', fc.site(c), 'inputs are labels STRICTLY zipped with the files (a length mismatch is an error, never a silent truncation)', strict, expected='zip_strict(ids, files)', found=u(zit) if zit is not None else u(ival), stmt='cmd inputs strict')
        rep.require(strict, f'query_cmd: inputs of the genome-file case are not built over zip_strict(<labels>, <files>)')
        roots = [align.source(m, fc, *deref(fc, a, fl['Ist']))[0] for a in zit.args]
        labels_root = roots[0] if len(set(roots)) == 1 else f'{roots}'
        tg, e = zef[1], zef[2]
        tn = [u(x) for x in tg.elts] if isinstance(tg, ast.Tuple) else []
        ops = [u(a) for a in zit.args]
        # which zip operand is the ids component / the files component of the unpacked pair
        ki = ops.index(comp[0]) if len(comp) == 2 and comp[0] in ops else None
        kf = ops.index(comp[1]) if len(comp) == 2 and comp[1] in ops else None
        oke = isinstance(e, ast.Call) and m.resolve_call(fc, e) == 'gambit.query.QueryInput' and len(tn) == 2 and ki is not None and kf is not None and ki != kf and [u(a) for a in e.args] == [tn[ki], tn[kf]] and not e.keywords
        rep.add('A3', fc.site(c), 'each input carries its own label and its own file', oke, expected='QueryInput(label, file) for label, file in zip_strict(ids, files)', found=u(ival), stmt='cmd input pairing')
        unpack_ok = len(comp) == 2 and files_e is not None and u(files_e) == comp[1] and ki is not None
        labels = zit.args[ki] if ki is not None else None
        via = 'query'
    rep.add('A3', fc.site(c), f'file channel: labels and files handed to {via} are the two aligned components of one get_sequence_files call', files_root == labels_root and files_root.startswith(f'{CM}.get_sequence_files('),
            expected='same get_sequence_files(...) call', found=(files_root, labels_root), stmt='cmd labels/files')
    okg = len(gs) == 1 and [u(a) for a in gs[0].args] == ['files_arg', 'listfile', 'ldir'] and not gs[0].keywords
    rep.add('A3', fc.site(gs[0] if gs else c), 'positional files, list file and its base directory are passed in that order, with default label stripping', okg, expected='get_sequence_files(files_arg, listfile, ldir)', found=[u(x) for x in gs], stmt='cmd input channels')
    rep.add('A3', fc.site(gst), 'the pair is unpacked as (ids, files)', gst is not None and unpack_ok, expected='ids, files = ...; labels from ids, files (and their signatures) from files',
            found=(comp, u(labels), u(files_e)), stmt='cmd unpack')
    dbd, prd = local_def(c.args[0], st), local_def(c.args[2], st) if len(c.args) > 2 else None
    rep.add('A3', fc.site(c), 'the query runs against the loaded database with the command parameters', isinstance(dbd, ast.Call) and callee_attr(dbd) == 'get_database' and isinstance(prd, ast.Call)
            and m.resolve_call(fc, prd) == 'gambit.query.QueryParams', expected=f'{via}(<ctx.obj.get_database()>, ..., <QueryParams(...)>, ...)', found=(u(dbd), u(prd)), stmt='cmd query_parse operands')
    # ---- signature-file channel (A5)
    q, qst = sg['call'], sg['stmt']
    rep.add('A5', fc.site(q), 'the signature-file case queries the loaded signatures directly', sg['kind'] == 'query', expected='query(db, <loaded signatures>, ...)', found=u(q)[:80], stmt='sigfile call')
    rep.require(sg['kind'] == 'query', 'query_cmd: the signature-file case goes through query_parse')
    sv = q.args[1]
    sdef = reaching_def(fc.node, sv.id, qst) if isinstance(sv, ast.Name) and isinstance(sg['S'], ast.Name) else sg['Sst']
    sd = def_value(sdef) if isinstance(sg['S'], ast.Name) and sdef not in (None, PARAM, AMBIGUOUS) else None if isinstance(sg['S'], ast.Name) else sg['S']
    inp = sg['I']
    iroot = align.source(m, fc, *deref(fc, inp, sg['Ist']))[0] if inp is not None else None
    # `<sv>.ids` is read from the very object that is queried: the definition of sv that reaches the inputs is the one that is queried
    same_obj = isinstance(sv, ast.Name) and (sg['Ist'] is sdef or reaching_def(fc.node, sv.id, sg['Ist']) is sdef)
    okq = isinstance(sv, ast.Name) and iroot == f'{sv.id}.ids' and same_obj
    rep.add('A5', fc.site(q), 'signature-file channel: one input per stored id, in stored order, and the signatures of the same object are queried', okq, expected=f'inputs = [QueryInput(id) for id in {u(sv)}.ids]; query(db, {u(sv)}, ...)',
            found=(u(sv), iroot), stmt='sigfile labels')
    idv = inp if not isinstance(inp, ast.Name) else (as_comprehension(fc, reaching_def(fc.node, inp.id, sg['Ist']))[0] if reaching_def(fc.node, inp.id, sg['Ist']) not in (None, PARAM, AMBIGUOUS) else None)
    ief = each_form(idv) if idv is not None else None
    okl = ief is not None and isinstance(ief[2], ast.Call) and m.resolve_call(fc, ief[2]) == 'gambit.query.QueryInput' and [u(a) for a in ief[2].args] == [u(ief[1])] and not ief[2].keywords
    rep.add('A5', fc.site(q), 'each label is the stored id itself', okl, expected='QueryInput(id) for every stored id', found=u(idv), stmt='sigfile label value')
    rep.add('A5', fc.site(q), 'the queried signatures are the loaded signature file', isinstance(sd, ast.Call) and (m.resolve_call(fc, sd) or '').endswith('load_signatures') and [u(a) for a in sd.args] == ['sigfile'], expected='load_signatures(sigfile)',
            found=u(sd), stmt='sigfile source')
    # ---- export (A8): what is exported is the result of the query call of whichever channel ran
    exp = [x for x in calls_in(fc.node) if callee_attr(x) == 'export']
    okx = bool(exp)
    seen = []
    for x in exp:
        okx = okx and len(x.args) == 2 and u(x.args[0]) == 'output' and not x.keywords
        if okx:
            xst = _stmt_of(fc, x)
            for _, v_, vs_ in value_cases(fc, gmc, x.args[1], xst):
                seen.append(local_def(v_, vs_) if isinstance(v_, ast.Name) else v_)
    # every exported value is the result of one of the query calls, and every query call's result is exported exactly once
    okx = okx and all(any(g is k['call'] for k in cases) for g in seen) and all(sum(1 for g in seen if g is k['call']) == 1 for k in cases)
    rep.add('A8', fc.site(exp[0] if exp else None), 'the results of whichever channel ran are exported once to the chosen output', okx,
            expected='exporter.export(output, <result of the query call>)', found=[u(x)[:100] for x in exp], stmt='export call')
    # ... on every path: the command never returns before the export of its own channel (a guard clause for "nothing / one thing to report" would print nothing)
    if exp:
        rep.account_exits('A8', fc, [_stmt_of(fc, x) for x in exp], 'the results are exported')

    # ---- query_parse (A3)
    fq = m.func('gambit.query.query_parse')
    rep.functions.add(fq.qualname)
    gmq = guard_map(fq.node)
    dbp, filesp = fq.params()[:2]
    qc = [x for x in calls_in(fq.node) if m.resolve_call(fq, x) == 'gambit.query.query']
    rep.require(len(qc) == 1, 'query_parse: expected one query() call')
    qcall = qc[0]
    qs = next(s for s in fq.node.body if any(x is qcall for x in ast.walk(s)))
    sig_root = align.source(m, fq, *deref(fq, qcall.args[1], qs))[0]
    rep.add('A3', fq.site(qcall), 'query signatures are computed from the files in file order (aligned by C13)', sig_root == filesp, expected=f'aligned with {filesp}', found=sig_root, stmt='signatures aligned')
    inputs = get_kw(qcall, 'inputs')
    roots = {}
    zipped = None
    for at, v, vs in value_cases(fq, gmq, inputs, qs):
        key = 'no labels' if ('is', 'None', 'file_labels') in at else 'labels' if ('isnot', 'None', 'file_labels') in at else '?'
        roots[key] = align.source(m, fq, *deref(fq, v, vs))[0]
        if key == 'labels':
            zipped = v
    okr = roots.get('no labels') == filesp and roots.get('labels') == f'zip_strict(file_labels, {filesp})'
    rep.add('A3', fq.site(qcall), 'inputs are the files themselves, or labels STRICTLY zipped with the files (a length mismatch is an error, never a silent truncation)', okr, expected=f'{filesp} | zip_strict(file_labels, {filesp})',
            found=roots, stmt='inputs aligned')
    zef = each_form(zipped) if zipped is not None else None
    if zef is not None:
        _, tg, e = zef
        oke = isinstance(e, ast.Call) and m.resolve_call(fq, e) == 'gambit.query.QueryInput' and isinstance(tg, ast.Tuple) and [u(a) for a in e.args] == [u(x) for x in tg.elts]
        rep.add('A3', fq.site(zipped), 'each input carries its own label and its own file', oke, expected='QueryInput(label, file) for label, file in zip_strict(file_labels, files)', found=u(zipped), stmt='input pairing')
    rep.add('A3', fq.site(qcall), 'the same database is queried and the caller parameters are forwarded', u(qcall.args[0]) == dbp and u(qcall.args[2]) == fq.params()[2], expected=f'query({dbp}, sigs, params, ...)', found=u(qcall)[:60], stmt='query operands')
    rep.account_returns('A3', fq, [s for s in stmts_in(fq.node.body) if isinstance(s, ast.Return) and s.value is qcall], 'results object')
    fz = m.func('gambit.util.misc.zip_strict')
    rep.functions.add(fz.qualname)
    zr = sorted({u(v) for _, v, _ in sym_returns(fz, 'zip_strict')})
    rep.add('A3', fz.site(), 'zip_strict is the strict zip (raises on unequal lengths)', zr == ['_zip_strict(*iterables)', 'zip(*iterables, strict=True)'], expected='zip(*iterables, strict=True) / _zip_strict(*iterables)', found=zr, stmt='zip_strict')




def filled_by_loop(rep, fi, name, init, ret, rule, stmt_key, desc):
    """`name = []` followed by ONE loop that appends exactly one element per iteration: returns (iterable, target, element, loop),
    the same triple a comprehension would give.  A conditional append, a second append, break / continue / return in the loop,
    insert(), sort() ... are concrete losses of the one-to-one, in-order image (violations); any other use of the list (handed to a
    callee, aliased) is outside the vocabulary."""
    bad, loop, pos, call = append_fill(fi, name, init)
    rep.add(rule, fi.site(loop if loop is not None else init), desc, not bad and loop is not None, expected=f'{name} = []; for ... : {name}.append(<one element>)', found=bad or (u(loop).splitlines()[0] if loop is not None else 'no append'), stmt=stmt_key)
    rep.require(not bad and loop is not None, f'{fi.name}: {name} starts empty but is not filled by exactly one unconditional append per iteration of one loop')
    # every other mention of the list must be its delivery to the results object
    allowed = {id(init.targets[0]), id(call.func.value)} | {id(k.value) for k in (ret.value.keywords if isinstance(ret, ast.Return) and isinstance(ret.value, ast.Call) else []) if isinstance(k.value, ast.Name)}
    other = [n for n in ast.walk(fi.node) if isinstance(n, ast.Name) and n.id == name and id(n) not in allowed]
    rep.require(not other, f'{fi.name}: {name} is also used in a way the rule does not follow (line {getattr(other[0], "lineno", "?") if other else ""})')
    return loop.iter, loop.target, append_elt(fi, loop, pos, call), loop


def _full_slice(x):
    return isinstance(x, ast.Slice) and x.lower is None and x.upper is None and x.step is None


def check_query(ctx):
    rep, m = ctx.rep, ctx.model
    fi = m.func('gambit.query.query')
    rep.functions.add(fi.qualname)
    gm = guard_map(fi.node)
    dbp, qp, pp = fi.params()[:3]
    ret0 = fi.node.body[-1]
    items_name = u(get_kw(ret0.value, 'items')) if isinstance(ret0, ast.Return) and isinstance(ret0.value, ast.Call) and get_kw(ret0.value, 'items') is not None else 'items'
    items = [s for s in stmts_in(fi.node.body) if isinstance(s, ast.Assign) and u(s.targets[0]) == items_name]
    rep.require(len(items) == 1, 'query: items is not assigned exactly once')
    lc = items[0].value
    at = items[0]          # the statement at which the iterated operands are evaluated
    if (isinstance(lc, ast.List) and not lc.elts) or (isinstance(lc, ast.Call) and u(lc.func) == 'list' and not lc.args and not lc.keywords):
        # the list starts empty and is filled by a loop: the same elementwise construction, spelled with append
        it, tgt, e, at = filled_by_loop(rep, fi, items_name, items[0], ret0, 'A4', 'items enumerate', 'one result item per input, in input order (no filter)')
        lc = at
    else:
        if is_filtered(lc):
            rep.add('A4', fi.site(lc), 'one result item per input, in input order (no filter)', False, expected='one generator, no filter', found=u(lc)[:120], stmt='items enumerate')
        ef = each_form(lc)
        rep.require(ef is not None and (isinstance(lc, ast.ListComp) or (isinstance(lc, ast.Call) and u(lc.func) in ('list', 'tuple'))),
                    'query: items is neither an elementwise list construction (list comprehension / list(map(...))) nor an empty list filled by one loop')
        it, tgt, e = ef
    mats = [c for c in calls_in(fi.node) if m.resolve_call(fi, c) == 'gambit.metric.jaccarddist_matrix']
    rep.require(len(mats) == 1, 'query: expected one jaccarddist_matrix call')
    mc = mats[0]
    mst = next(s for s in fi.node.body if any(x is mc for x in ast.walk(s)))
    mvar = mst.targets[0].id if isinstance(mst, ast.Assign) and len(mst.targets) == 1 and isinstance(mst.targets[0], ast.Name) and mst.value is mc else None

    def is_matrix(x):
        return mvar is not None and isinstance(x, ast.Name) and x.id == mvar and reaching_def(fi.node, mvar, at) is mst

    # how input k and matrix row k are brought together: a position counter (enumerate) indexing the matrix, or the matrix rows
    # iterated in lock step with the inputs (zip).  rows / inps: the expressions that denote "row k" / "input k" in the element.
    tn = [x.id for x in tgt.elts] if isinstance(tgt, ast.Tuple) and all(isinstance(x, ast.Name) for x in tgt.elts) else [tgt.id] if isinstance(tgt, ast.Name) else []
    fname = u(it.func) if isinstance(it, ast.Call) else None
    src = None
    note = ''
    row_of = inp_of = aligned_row = lambda x: False     # noqa: E731

    def row_index(sl, want_):
        """X[k] / X[k, :] with k the wanted position"""
        if isinstance(sl, ast.Tuple):
            if not (len(sl.elts) == 2 and _full_slice(sl.elts[1])):
                return False
            sl = sl.elts[0]
        return not isinstance(sl, ast.Slice) and Aff.try_of(sl) == want_

    NP_ROWWISE = {'numpy.argsort': 'axis', 'numpy.sort': 'axis', 'numpy.argpartition': 'axis', 'numpy.partition': 'axis'}     # default axis -1
    NP_SAME = ('numpy.asarray', 'numpy.array', 'numpy.ascontiguousarray', 'numpy.asanyarray', 'numpy.copy')

    def row_deriv(x, at_, depth=0):
        """('aligned' | 'broken' | 'unknown' | 'unrelated', why): is x the distance matrix or derived from it by operations that keep
        axis 0 - row k of x computed from row k of the matrix alone (ordering / partitioning / sorting along axis 1, column slices
        [:, ...], array / list conversion, copy)?  'broken': derived, but along the rows (axis 0 / None), transposed, or from a row
        slice / permutation.  'unrelated': the matrix does not occur in it."""
        if is_matrix(x):
            return 'aligned', 'the matrix'
        if depth > 6:
            return 'unknown', 'derivation too deep'
        if isinstance(x, ast.Name):
            d = reaching_def(fi.node, x.id, at_)
            v = def_value(d) if d not in (None, PARAM, AMBIGUOUS) else None
            if v is None:
                if mvar is not None and x.id == mvar:
                    return 'unknown', f'{mvar} is rebound'
                if d is not AMBIGUOUS:
                    return 'unrelated', ''
                # bound on several paths: unrelated when no binding has anything to do with the matrix
                vals = [(s_.value, s_) for s_ in stmts_in(fi.node.body) if isinstance(s_, (ast.Assign, ast.AnnAssign, ast.AugAssign)) and s_.value is not None
                        and any(isinstance(t, ast.Name) and t.id == x.id for tt in (s_.targets if isinstance(s_, ast.Assign) else [s_.target]) for t in ast.walk(tt))]
                if vals and all(row_deriv(v_, s_, depth + 1)[0] == 'unrelated' for v_, s_ in vals):
                    return 'unrelated', ''
                return 'unknown', f'{x.id} is bound on several paths'
            return row_deriv(v, d, depth + 1)
        if mvar is None or mvar not in names_in(x) and not any(row_deriv(n, at_, depth + 1)[0] != 'unrelated' for n in ast.walk(x) if isinstance(n, ast.Name) and isinstance(n.ctx, ast.Load) and n.id != mvar):
            return 'unrelated', ''
        if isinstance(x, ast.Subscript):
            st_, why = row_deriv(x.value, at_, depth + 1)
            if st_ != 'aligned':
                return st_, why
            sl = x.slice
            first = sl.elts[0] if isinstance(sl, ast.Tuple) and sl.elts else sl
            if _full_slice(first) or first is Ellipsis:
                return 'aligned', 'column selection'
            if isinstance(first, ast.Slice) or isinstance(first, (ast.Constant, ast.UnaryOp)):
                return 'broken', f'rows selected / reordered by [{u(sl)}]'
            return 'unknown', f'index [{u(sl)}]'
        if isinstance(x, ast.Attribute) and x.attr == 'T':
            st_, why = row_deriv(x.value, at_, depth + 1)
            return ('broken', 'transposed') if st_ == 'aligned' else (st_, why)
        if isinstance(x, ast.Call) and not any(isinstance(a, ast.Starred) for a in x.args) and all(k.arg is not None for k in x.keywords):
            r = m.resolve(fi.module, x.func)
            recv = None
            if r in NP_ROWWISE and x.args:
                recv, axis = x.args[0], get_arg(x, 1 if r in ('numpy.argsort', 'numpy.sort') else 2, 'axis')
                meth = r
            elif isinstance(x.func, ast.Attribute) and x.func.attr in ('argsort', 'argpartition') and r is None:
                recv, axis = x.func.value, get_arg(x, 0 if x.func.attr == 'argsort' else 1, 'axis')
                meth = x.func.attr
            if recv is not None:
                st_, why = row_deriv(recv, at_, depth + 1)
                if st_ != 'aligned':
                    return st_, why
                if axis is None or (isinstance(axis, ast.Constant) and axis.value in (1, -1)) or (isinstance(axis, ast.UnaryOp) and u(axis) == '-1'):
                    return 'aligned', f'{meth} along each row'
                if isinstance(axis, ast.Constant) and (axis.value == 0 or axis.value is None):
                    return 'broken', f'{meth} along axis {axis.value}: row k no longer comes from row k of the matrix'
                return 'unknown', f'{meth} with axis={u(axis)}'
            if (r in NP_SAME or u(x.func) in ('list', 'tuple')) and len(x.args) >= 1:
                return row_deriv(x.args[0], at_, depth + 1)
            if isinstance(x.func, ast.Attribute) and x.func.attr in ('copy', 'astype', 'tolist') and r is None:
                return row_deriv(x.func.value, at_, depth + 1)
            if r in ('numpy.transpose',):
                st_, why = row_deriv(x.args[0], at_, depth + 1) if x.args else ('unknown', '')
                return ('broken', 'transposed') if st_ == 'aligned' else (st_, why)
        return 'unknown', f'`{u(x)[:60]}` is derived from the matrix by an operation the rule does not know'
    if fname == 'enumerate' and len(tn) == 2 and 1 <= len(it.args) <= 2 and not any(isinstance(a, ast.Starred) for a in it.args) and all(k.arg == 'start' for k in it.keywords):
        start = Aff.try_of(it.args[1] if len(it.args) == 2 else get_kw(it, 'start') if it.keywords else ast.Constant(value=0))
        rep.require(start is not None, f'query: enumerate start {u(it)} is not affine')
        src = it.args[0]
        want = Aff({tn[0]: 1}).sub(start)

        def row_of(x):
            return isinstance(x, ast.Subscript) and is_matrix(x.value) and row_index(x.slice, want)

        def inp_of(x):
            return isinstance(x, ast.Name) and x.id == tn[1]

        def aligned_row(x):
            return isinstance(x, ast.Subscript) and row_deriv(x.value, at)[0] == 'aligned' and row_index(x.slice, want)
        pairing = f'position counter {tn[0]} from {u(it)}'
    elif (fname == 'zip' or (isinstance(it, ast.Call) and m.resolve_call(fi, it) == 'gambit.util.misc.zip_strict')) and len(it.args) >= 2 and len(tn) == len(it.args) \
            and not any(isinstance(a, ast.Starred) for a in it.args) and all(k.arg == 'strict' for k in it.keywords):
        # one operand is the matrix, one the inputs; any further operand must be a ROW-ALIGNED derivation of the same matrix (row k of
        # it is computed from row k of the matrix alone), so that all targets of one iteration belong to the same query
        kinds = [row_deriv(a, at) for a in it.args]
        ks = [k for k, a in enumerate(it.args) if is_matrix(a)]
        broken = [f'{u(a)}: {kd[1]}' for a, kd in zip(it.args, kinds) if kd[0] == 'broken']
        unknown = [f'{u(a)}: {kd[1]}' for a, kd in zip(it.args, kinds) if kd[0] == 'unknown']
        others = [k for k, kd in enumerate(kinds) if kd[0] == 'unrelated']
        if broken:
            note = f'operand not row-aligned with the matrix: {broken}'
        elif len(ks) == 1:
            rep.require(not unknown, f'query: zip operand `{(unknown or [""])[0][:120]}` - cannot show that it is a row-aligned derivation of the distance matrix')
            rep.require(len(others) == 1, f'query: {u(it)[:80]} has {len(others)} operands that are neither the matrix nor derived from it (expected exactly the inputs)')
            k, ki = ks[0], others[0]
            src = it.args[ki]
            extra_targets = {tn[j] for j in range(len(tn)) if j not in (k, ki)}

            def row_of(x):
                return isinstance(x, ast.Name) and x.id == tn[k]

            def inp_of(x):
                return isinstance(x, ast.Name) and x.id == tn[ki]

            def aligned_row(x):
                return isinstance(x, ast.Name) and x.id in extra_targets
        pairing = f'lock-step iteration {u(it)}'
    else:
        rep.require(False, f'query: items are built over `{u(it)[:80]}`: neither enumerate(<inputs>) nor zip(<inputs>, <matrix>, ...)')
    rep.add('A4', fi.site(lc), 'one result item per input, in input order (no filter)', src is not None or fname == 'zip', expected='enumerate(<inputs>) / zip(<inputs>, <distance matrix>)', found=u(it), stmt='items enumerate')
    oke = isinstance(e, ast.Call) and m.resolve_call(fi, e) == 'gambit.query.get_result_item' and len(e.args) >= 4 and not any(isinstance(a, ast.Starred) for a in e.args) \
        and all(k.arg is not None for k in e.keywords) and u(e.args[0]) == dbp
    # further operands of the item call: row k of a row-aligned derivation, or values that do not come from the matrix at all
    extra_bad = []
    if oke and src is not None:
        for x in list(e.args[4:]) + [k.value for k in e.keywords]:
            if aligned_row(x):
                continue
            loose = [n for n in ast.walk(x) if isinstance(n, ast.Name) and isinstance(n.ctx, ast.Load) and n.id not in tn and row_deriv(n, at)[0] != 'unrelated']
            if loose:
                extra_bad.append(f'{u(x)}: uses {sorted({n.id for n in loose})} as a whole, not its row k')
    rep.add('A4', fi.site(lc), 'item k is built from row k of the distance matrix and input k (same position)', oke and src is not None and row_of(e.args[2]) and inp_of(e.args[3]) and not extra_bad,
            expected=f'get_result_item({dbp}, params, <row k of the matrix>, <input k>[, <row k of a row-aligned derivation>])', found=f'{u(e)} via {pairing}' + (f'; {note}' if note else '') + (f'; {extra_bad}' if extra_bad else ''),
            stmt='row/input pairing')
    rep.require(src is not None, f'query: no operand of {u(it)} is the distance matrix')
    src_root = align.source(m, fi, *deref(fi, src, at))[0]
    rows_root = align.source(m, fi, *deref(fi, mc.args[0], mst))[0]
    rep.add('A4', fi.site(mc), 'matrix rows follow the query signatures in the given order', rows_root == qp, expected=qp, found=rows_root, stmt='matrix rows')
    rep.add('A4', fi.site(mc), 'the rows classified are rows of that distance matrix', mvar is not None, expected='dmat = jaccarddist_matrix(...)', found=u(mst).splitlines()[0][:80], stmt='matrix variable')
    nq = Aff({f'len({qp})': 1})

    def counter(s_):
        """(length, first value, counter name, element) of a definition made from a running counter: a unit-step range(...), or
        enumerate(<the queries>[, start]); None otherwise."""
        f_ = each_form(as_comprehension(fi, s_)[0])
        if f_ is None:
            return None
        it_, tg_, el_ = f_
        if isinstance(tg_, ast.Name) and range_len(fi, it_, s_) is not None:
            first = Aff.try_of(expand_locals(fi, it_.args[0], s_)) if len(it_.args) >= 2 else Aff(const=0)
            return range_len(fi, it_, s_), first, tg_.id, el_
        if isinstance(it_, ast.Call) and u(it_.func) == 'enumerate' and 1 <= len(it_.args) <= 2 and all(k.arg == 'start' for k in it_.keywords) and not any(isinstance(a, ast.Starred) for a in it_.args) \
                and isinstance(tg_, ast.Tuple) and len(tg_.elts) == 2 and isinstance(tg_.elts[0], ast.Name):
            st_ = it_.args[1] if len(it_.args) == 2 else get_kw(it_, 'start')
            first = Aff.try_of(expand_locals(fi, st_, s_)) if st_ is not None else Aff(const=0)
            root_, elt_ = elem_form(fi, it_.args[0], s_)
            if root_ == qp:
                return nq, first, tg_.elts[0].id, el_
        return None

    def numbering(s_):
        """Is this definition one label per query, made from a counter that takes exactly len(queries) values?"""
        c_ = counter(s_)
        return c_ is not None and c_[0] == nq
    if src_root == '?inputs':
        # assigned on both sides of `if inputs is not None`: every definition must be an order-preserving image of the
        # parameter, or the default numbering over the queries
        roots = set()
        for s_ in stmts_in(fi.node.body):
            if isinstance(s_, ast.Assign) and u(s_.targets[0]) == 'inputs':
                roots.add('numbering of the queries' if numbering(s_) else align.source(m, fi, *as_comprehension(fi, s_))[0])
        src_root = 'inputs' if roots == {'inputs', 'numbering of the queries'} else f'{sorted(roots)}'
    rep.add('A4', fi.site(lc), 'the iterated inputs are the caller inputs in order (converted one-to-one; progress wrapper transparent)', src_root == 'inputs', expected='inputs', found=src_root, stmt='inputs order')
    # len check (a local that only names len(queries) is the same quantity)
    rs = [s for s in stmts_in(fi.node.body) if isinstance(s, ast.Raise)]
    ratoms = {id(r): path_atoms(gm[r], key=lambda x, r=r: u(expand_locals(fi, x, r))) for r in rs}
    okl = any(('ne', 'len(inputs)', f'len({qp})') in ratoms[id(r)] and raised_name(r) == 'ValueError' for r in rs)
    rep.add('A4', fi.site(rs[0] if rs else None), 'a different number of inputs and queries is an error (no mislabelled or dropped row)', okl, expected=f'raise ValueError when len(inputs) != len({qp})', found=[sorted(ratoms[id(r)]) for r in rs],
            stmt='length check')
    dflt = [s for s in stmts_in(fi.node.body) if isinstance(s, ast.Assign) and u(s.targets[0]) == 'inputs' and ('is', 'None', 'inputs') in path_atoms(gm[s])]
    okd = len(dflt) == 1 and numbering(dflt[0])
    rep.add('A4', fi.site(dflt[0] if dflt else None), 'without inputs, one numbered label per query', okd, expected=f'[QueryInput(str(i + 1)) for i in range(len({qp}))]', found=[u(d.value) for d in dflt], stmt='default labels')
    if okd:
        # the label of the k-th query (k = 0, 1, ...) is the text of k + 1: the counter's first value plus the offset applied to it is 1
        _, first, cname, el = counter(dflt[0])
        num = None
        if isinstance(el, ast.Call) and m.resolve_call(fi, el) == 'gambit.query.QueryInput' and len(el.args) == 1 and not el.keywords:
            a = el.args[0]
            if isinstance(a, ast.Call) and u(a.func) == 'str' and len(a.args) == 1 and not a.keywords:
                num = a.args[0]
            elif isinstance(a, ast.JoinedStr) and len(a.values) == 1 and isinstance(a.values[0], ast.FormattedValue) and a.values[0].conversion == -1 and a.values[0].format_spec is None:
                num = a.values[0].value
        shown = Aff.try_of(expand_locals(fi, num, dflt[0])) if num is not None else None
        rep.require(shown is not None and first is not None, f'query: default label `{u(el)}` is not QueryInput(str(<counter + offset>))')
        rep.add('A4', fi.site(dflt[0]), 'the default label of the k-th query is its 1-based position', shown.sub(Aff({cname: 1})).add(first) == Aff(const=1), expected='"1", "2", ... in query order',
                found=f'{u(el)} with {cname} starting at {first}', stmt='default label value')
    rep.account_returns('A4', fi, [fi.node.body[-1]] if isinstance(fi.node.body[-1], ast.Return) else [], 'results object')
    ql = [s for s in fi.node.body if isinstance(s, ast.Assign) and u(s.targets[0]) == qp]
    rep.add('A4', fi.site(ql[0] if ql else None), 'the query sequence is materialised once, order kept', len(ql) == 1 and u(ql[0].value) == f'list({qp})', expected=f'{qp} = list({qp})', found=[u(x.value) for x in ql], stmt='queries list')
    # nothing reorders / removes / replaces elements of the list between its construction and its delivery
    touched = [u(c)[:70] for c in calls_in(fi.node) if isinstance(c.func, ast.Attribute) and u(c.func.value) == items_name and c.func.attr in MUTATORS + ('extend', 'append') and not (c.func.attr == 'append' and lc is at and isinstance(at, ast.For))] \
        + [f'{type(n.ctx).__name__.lower()} {u(n)}' for n in ast.walk(fi.node) if isinstance(n, ast.Subscript) and isinstance(n.ctx, (ast.Store, ast.Del)) and u(n.value) == items_name]
    rep.add('A4', fi.site(items[0]), 'the items list is not modified after it is built', not touched, expected=f'no insert / sort / reverse / pop / remove / store on {items_name}', found=touched or 'none', stmt='items untouched')
    ret = fi.node.body[-1]
    okret = isinstance(ret, ast.Return) and isinstance(ret.value, ast.Call) and u(get_kw(ret.value, 'items')) == items_name and m.resolve_call(fi, ret.value) == 'gambit.query.QueryResults'
    rep.add('A4', fi.site(ret), 'the results carry the items list as built', okret, expected='QueryResults(items=items, ...)', found=u(ret)[:60], stmt='results items')
    gri = m.func('gambit.query.get_result_item')
    ctor = [c for c in calls_in(gri.node) if m.resolve_call(gri, c) == 'gambit.query.QueryResultItem']
    rep.add('A4', gri.site(ctor[0] if ctor else None), 'the item is labelled with the input it was given', len(ctor) == 1 and u(get_kw(ctor[0], 'input')) == gri.params()[3], expected='input=input', found=[u(get_kw(c, 'input')) for c in ctor], stmt='item label')
    fcv = m.func('gambit.query.QueryInput.convert')
    rep.functions.add(fcv.qualname)
    x = fcv.params()[1]
    conv = {}
    for guards, v, r in sym_returns(fcv, 'QueryInput.convert'):
        for a in path_atoms(guards):
            if r is not None and a[0] == 'true' and a[1].startswith(f'isinstance({x}, '):
                conv.setdefault(a[1][len(f'isinstance({x}, '):-1], set()).add(u(v))
    conv = {k: (next(iter(v)) if len(v) == 1 else sorted(v)) for k, v in conv.items()}
    rep.add('A4', fcv.site(), 'QueryInput.convert keeps an input as is, labels a string with itself and a file with its path', conv == {'QueryInput': x, 'str': f'QueryInput({x})', 'SequenceFile': f'QueryInput(str({x}.path), {x})'},
            expected='identity / QueryInput(x) / QueryInput(str(x.path), x)', found=conv, stmt='convert')


def check_independence(ctx):
    rep, m = ctx.rep, ctx.model
    roots = ['gambit.query.get_result_item']
    clo = effects.closure(m, roots, method_modules={'gambit.db.models', 'gambit.classify', 'gambit.query'})
    # drop ORM helpers that are not on the per-row path
    clo = {q for q in clo if m.functions[q].module.name in ('gambit.query', 'gambit.classify', 'gambit.db.models', 'gambit.util.misc')}
    rep.floor('A6', 'functions in the per-row closure', len(clo), 8)
    rep.info['per_row_closure'] = sorted(clo)
    for q in sorted(clo):
        fi = m.functions[q]
        rep.functions.add(q)
        ws = effects.nonlocal_writes(fi, model=m, strict=True)
        rep.add('A6', fi.site(ws[0][0] if ws and isinstance(ws[0][0], ast.AST) else None), f'{q.rsplit(".", 2)[-2] + "." + fi.name if fi.cls else fi.name}: writes nothing outside its own locals (row content cannot depend on other rows or on call order)',
                not ws, expected='no store to parameters / globals / self', found=[d for _, d in ws][:4], stmt=f'effects {q}', construct=q)
    # module-level mutable state in these modules that the closure reads would also carry context: none is assigned at module level except constants
    for modname in ('gambit.classify', 'gambit.query'):
        mod = m.module(modname)
        muts = [k for k, v in mod.assigns.items() if isinstance(v, (ast.List, ast.Dict, ast.Set, ast.ListComp, ast.DictComp)) or (isinstance(v, ast.Call) and u(v.func) in ('dict', 'list', 'set', 'defaultdict'))]
        rep.add('A6', (mod.relpath, 1, modname), f'{modname} holds no module-level mutable container (no cross-row cache)', not muts, expected='none', found=muts, stmt=f'module state {modname}')


def check_transparency(ctx):
    rep, m = ctx.rep, ctx.model
    fn = m.func('gambit.util.progress.ProgressIterator.__next__')
    rep.functions.add(fn.qualname)
    rets = [s for s in stmts_in(fn.node.body) if isinstance(s, ast.Return)]
    pulls = [c for c in calls_in(fn.node) if u(c.func) == 'next']
    okn = len(rets) == 1 and len(pulls) == 1 and [u(a) for a in pulls[0].args] == ['self.itr'] and isinstance(rets[0].value, ast.Name)
    if okn:
        d = [s for s in stmts_in(fn.node.body) if isinstance(s, ast.Assign) and u(s.targets[0]) == rets[0].value.id]
        okn = len(d) == 1 and d[0].value is pulls[0]
    rep.add('A7', fn.site(), 'the progress iterator returns exactly the one value it pulled from the wrapped iterator', okn, expected='value = next(self.itr); return value', found=[u(r) for r in rets] + [u(p) for p in pulls], stmt='progress next')
    handlers = [h for s in stmts_in(fn.node.body) if isinstance(s, ast.Try) for h in s.handlers]
    okh = all(u(h.type) == 'StopIteration' and isinstance(h.body[-1], ast.Raise) and h.body[-1].exc is None for h in handlers)
    rep.add('A7', fn.site(), 'only exhaustion is intercepted, and it is re-raised', okh, expected='except StopIteration: ...; raise', found=[u(h.type) for h in handlers], stmt='progress stop')
    fin = m.func('gambit.util.progress.ProgressIterator.__init__')
    sets = {u(s.targets[0]): u(s.value) for s in fin.node.body if isinstance(s, ast.Assign)}
    rep.add('A7', fin.site(), 'it iterates the given iterable itself', sets.get('self.itr') == f'iter({fin.params()[1]})', expected='self.itr = iter(iterable)', found=sets.get('self.itr'), stmt='progress source')
    fip = m.func('gambit.util.progress.iter_progress')
    rr = [s for s in fip.node.body if isinstance(s, ast.Return)]
    rep.add('A7', fip.site(), 'iter_progress wraps the iterable unchanged', len(rr) == 1 and isinstance(rr[0].value, ast.Call) and u(rr[0].value.func) == 'ProgressIterator' and u(rr[0].value.args[0]) == fip.params()[0],
            expected='ProgressIterator(iterable, meter)', found=[u(r.value) for r in rr], stmt='iter_progress')
    rep.functions.update({fin.qualname, fip.qualname})
    # cores taint: only omp_set_num_threads(cores), max_workers=cores, parse_kw=dict(max_workers=cores), `cores is not None`
    n = 0
    for q in ('gambit.cli.query.query_cmd', 'gambit.cli.dist.dist_cmd', 'gambit.cli.tree.tree_cmd', 'gambit.cli.signatures.create'):
        fi = m.func(q)
        rep.functions.add(q)
        pm = {}
        for node in ast.walk(fi.node):
            for ch in ast.iter_child_nodes(node):
                pm[ch] = node
        bad = []
        for node in ast.walk(fi.node):
            if isinstance(node, ast.Name) and node.id == 'cores' and isinstance(node.ctx, ast.Load):
                n += 1
                par = pm.get(node)
                if isinstance(par, ast.Compare) and all(is_none(c) for c in par.comparators):
                    continue
                if isinstance(par, ast.Call) and (m.resolve_call(fi, par) or '').endswith('omp_set_num_threads') and par.args == [node]:
                    continue
                if isinstance(par, ast.keyword) and par.arg == 'max_workers':
                    continue
                bad.append(u(par)[:60])
        rep.add('A7', fi.site(), f'{fi.name}: the core count reaches only the OpenMP thread setter and worker-pool sizes (never data or row selection)', not bad, expected='omp_set_num_threads(cores) / max_workers=cores', found=bad,
                stmt=f'cores {fi.name}', construct=q)
    rep.floor('A7', 'uses of `cores`', n, 6)
    fq = m.func('gambit.query.query')
    mats = [c for c in calls_in(fq.node) if m.resolve_call(fq, c) == 'gambit.metric.jaccarddist_matrix']
    cs = get_kw(mats[0], 'chunksize') if mats else None
    rep.add('A7', fq.site(mats[0] if mats else None), 'the reference chunk size only parameterises the chunked matrix computation (C05-B5 shows cells do not depend on it)', u(cs) == f'{fq.params()[2]}.chunksize',
            expected='chunksize=params.chunksize', found=u(cs), stmt='chunksize wiring')


def _is_generator(fi):
    return any(isinstance(n, (ast.Yield, ast.YieldFrom)) for n in ast.walk(fi.node))


def seq_events(m, fi, e, stmt, what, depth=0):
    """The rows an order-preserving sequence expression delivers, in order: ('one', row) for a single row, ('each', iterable,
    target, row) for one row per element of `iterable`.  Follows locals, list()/tuple()/iter(), comprehensions / map, literal
    lists, concatenation (+, itertools.chain) and calls of generator functions of the package (their yields, with the call's
    arguments substituted for the parameters).  Anything else is outside the vocabulary."""
    e = _unwrap_seq(e)
    rep_reason = f'{what}: rows delivered by `{u(e)[:80]}` cannot be enumerated (not a comprehension / map / literal / concatenation / generator of the package)'
    if depth > 4:
        raise Undecided(rep_reason)
    ef = each_form(e)
    if ef is not None:
        return [('each', ef[0], ef[1], ef[2], fi)]
    if is_filtered(e):
        return [('each', e, None, None, fi)]
    if isinstance(e, (ast.List, ast.Tuple)) and not any(isinstance(x, ast.Starred) for x in e.elts):
        return [('one', x, None, None, fi) for x in e.elts]
    if isinstance(e, ast.BinOp) and isinstance(e.op, ast.Add):
        return seq_events(m, fi, e.left, stmt, what, depth + 1) + seq_events(m, fi, e.right, stmt, what, depth + 1)
    if isinstance(e, ast.Name):
        d = reaching_def(fi.node, e.id, stmt) if stmt is not None else None
        v = def_value(d) if d not in (None, PARAM, AMBIGUOUS) else None
        if v is None:
            raise Undecided(rep_reason)
        return seq_events(m, fi, v, d, what, depth + 1)
    if isinstance(e, ast.Call):
        if (m.resolve_call(fi, e) or u(e.func)) in ('itertools.chain', 'chain') and not e.keywords and not any(isinstance(a, ast.Starred) for a in e.args):
            return [ev for a in e.args for ev in seq_events(m, fi, a, stmt, what, depth + 1)]
        g = m.functions.get(m.resolve_call(fi, e))
        if g is not None and _is_generator(g) and not e.keywords and not any(isinstance(a, ast.Starred) for a in e.args):
            params = [x.arg for x in g.node.args.posonlyargs + g.node.args.args]
            if g.cls is not None and params and params[0] in ('self', 'cls') and isinstance(e.func, ast.Attribute):
                env = {params[0]: e.func.value}
                params = params[1:]
            else:
                env = {}
            if len(params) != len(e.args) or g.node.args.kwonlyargs or g.node.args.vararg or g.node.args.kwarg:
                raise Undecided(rep_reason)
            env.update(zip(params, e.args))
            out = []
            for kind, a, t, r, _ in gen_events(m, g, what, depth + 1):
                bound = names_in(t) if t is not None else set()
                out.append((kind, subst(a, env) if isinstance(a, ast.AST) else a, t, subst(r, {k: v for k, v in env.items() if k not in bound}) if r is not None else None, fi))
            return out
    raise Undecided(rep_reason)


def gen_events(m, g, what, depth):
    """Rows yielded by a generator function, in order (expressions over its own parameters and locals)."""
    out = []
    for s in g.node.body:
        if _is_doc(s) or isinstance(s, ast.Pass) or (isinstance(s, ast.Assign) and not any(isinstance(n, (ast.Yield, ast.YieldFrom)) for n in ast.walk(s))):
            continue
        if isinstance(s, ast.Expr) and isinstance(s.value, ast.Yield) and s.value.value is not None:
            out.append(('one', _resolve_local(g, s.value.value, s), None, None, g))
        elif isinstance(s, ast.Expr) and isinstance(s.value, ast.YieldFrom):
            out += seq_events(m, g, s.value.value, s, what, depth)
        elif isinstance(s, ast.For) and not s.orelse and len(s.body) == 1 and isinstance(s.body[0], ast.Expr) and isinstance(s.body[0].value, ast.Yield) and s.body[0].value.value is not None:
            out.append(('each', _resolve_local(g, s.iter, s), s.target, s.body[0].value.value, g))
        else:
            raise Undecided(f'{what}: generator {g.qualname}: `{u(s).splitlines()[0][:70]}` is neither a yield, a yield from, nor a loop yielding one row per element')
    return out


def _resolve_local(fi, e, stmt):
    """A bare local name stands for the expression it was bound to (one step per name, unique reaching definition)."""
    for _ in range(4):
        if not isinstance(e, ast.Name):
            break
        d = reaching_def(fi.node, e.id, stmt)
        v = def_value(d) if d not in (None, PARAM, AMBIGUOUS) else None
        if v is None:
            break
        e, stmt = v, d
    return e


def csv_row_events(m, fe, what):
    """Every row handed to the csv writer by the export method, in program order."""
    def is_writer(x, at):
        x = _resolve_local(fe, x, at)
        return isinstance(x, ast.Call) and (m.resolve_call(fe, x) or u(x.func)) == 'csv.writer'

    def write_call(s, at):
        c = s.value if isinstance(s, ast.Expr) else None
        if isinstance(c, ast.Call) and isinstance(c.func, ast.Attribute) and c.func.attr in ('writerow', 'writerows') and is_writer(c.func.value, at) and len(c.args) == 1 and not c.keywords:
            return c
        return None

    def mentions_writer(s):
        return any(isinstance(n, ast.Attribute) and n.attr in ('writerow', 'writerows', 'write', 'writelines') for n in ast.walk(s)) \
            or any(isinstance(n, ast.Call) and isinstance(n.func, ast.Name) and n.func.id == 'print' for n in ast.walk(s))

    out = []

    def block(stmts):
        for s in stmts:
            c = write_call(s, s)
            if c is not None and c.func.attr == 'writerow':
                out.append(('one', _resolve_local(fe, c.args[0], s), None, None, fe))
            elif c is not None:
                out.extend(seq_events(m, fe, c.args[0], s, what))
            elif isinstance(s, ast.With):
                block(s.body)
            elif isinstance(s, ast.For) and mentions_writer(s):
                # one row per element: the body may name the row first, the last statement writes it
                last = s.body[-1]
                c = write_call(last, last)
                pre = s.body[:-1]
                okb = c is not None and c.func.attr == 'writerow' and not s.orelse and all(isinstance(x, ast.Assign) and len(x.targets) == 1 and isinstance(x.targets[0], ast.Name) and not mentions_writer(x) for x in pre)
                if not okb:
                    raise Undecided(f'{what}: loop `{u(s).splitlines()[0][:70]}` does not write exactly one row per element as its last statement')
                env = {}
                for x in pre:
                    env[x.targets[0].id] = subst(x.value, env)
                out.append(('each', _resolve_local(fe, s.iter, s), s.target, subst(c.args[0], env), fe))
            elif mentions_writer(s) and not (isinstance(s, ast.Assign) and is_writer(s.value, s)):
                raise Undecided(f'{what}: `{u(s).splitlines()[0][:70]}` writes output in a way the row enumeration does not follow')
    block(fe.node.body)
    return out


def check_exporters(ctx):
    rep, m = ctx.rep, ctx.model
    fe = m.func('gambit.results.CSVResultsExporter.export')
    rep.functions.add(fe.qualname)
    res = fe.params()[2]
    ev = csv_row_events(m, fe, 'CSV export')
    each = [x for x in ev if x[0] == 'each']
    ok = len(each) == 1
    if ok:
        _, itx, tg, row, owner = each[0]
        ok = u(itx) == f'{res}.items' and isinstance(row, ast.Call) and m.resolve_call(owner, row) == 'gambit.results.CSVResultsExporter.get_row' and isinstance(row.func, ast.Attribute) and u(row.func.value) == 'self' \
            and [u(a) for a in row.args] == [u(tg)] and not row.keywords
    # besides the item rows only a header may be written: one single row, before the items, not derived from the results
    ones = [k for k, x in enumerate(ev) if x[0] == 'one']
    okh = len(ones) <= 1 and all(k < ev.index(each[0]) for k in ones if each) and all(res not in names_in(ev[k][1]) for k in ones)
    shown = [f'{u(x[1])[:60]}' if x[0] == 'one' else f'for {u(x[2])} in {u(x[1])[:60]}: {u(x[3])}' for x in ev]
    site = next((s for s in stmts_in(fe.node.body) if isinstance(s, ast.For)), None)
    rep.add('A8', fe.site(site), 'CSV: one row per result item, in item order', ok and okh, expected=f'[header]; then self.get_row(item) for item in {res}.items, in order', found=shown, stmt='csv rows')
    fj = m.func('gambit.results.JSONResultsExporter._results_to_json')
    rep.functions.add(fj.qualname)
    res = fj.params()[1]
    # the mapping that is exported is attrs' asdict of the results object, not recursed into (the items stay the objects, in order),
    # with the field `items` kept: a filter is evaluated for that field, later deletions / stores must not touch that key
    ad = [c for c in calls_in(fj.node) if (m.resolve_call(fj, c) or u(c.func)).rsplit('.', 1)[-1] == 'asdict' and c.args and u(c.args[0]) == res]
    rep.add('A8', fj.site(), 'JSON: the exported mapping is asdict(results) without recursion', len(ad) == 1 and is_const(get_kw(ad[0], 'recurse'), False), expected=f'asdict({res}, recurse=False)',
            found=[u(c) for c in ad] or [u(s) for s in fj.node.body], stmt='json asdict')
    rep.require(len(ad) == 1, '_results_to_json: expected one asdict(results, ...) call')
    other = [k.arg for k in ad[0].keywords if k.arg not in ('recurse', 'filter')] + (['*args'] if len(ad[0].args) > 1 else [])
    rep.require(not other, f'_results_to_json: asdict option {other} is outside the vocabulary')
    keeps = True
    flt = get_kw(ad[0], 'filter')
    if flt is not None and not is_none(flt):
        fa = flt.args if isinstance(flt, ast.Lambda) else None
        rep.require(fa is not None and len(fa.args) == 2 and not (fa.posonlyargs or fa.kwonlyargs or fa.vararg or fa.kwarg), f'_results_to_json: filter `{u(flt)[:60]}` is not a two-argument lambda the rule can evaluate')
        keeps = const_truth(flt.body, {f'{fa.args[0].arg}.name': 'items'})
        rep.require(keeps is not None, f'_results_to_json: filter `{u(flt)[:60]}` cannot be evaluated for the field `items`')
    touched = []
    for n in ast.walk(fj.node):
        if isinstance(n, ast.Subscript) and isinstance(n.ctx, (ast.Store, ast.Del)):
            if not isinstance(n.slice, ast.Constant):
                rep.require(False, f'_results_to_json: `{u(n)}` is stored / deleted under a key that is not a constant')
            if n.slice.value == 'items':
                touched.append(f'{type(n.ctx).__name__.lower()} {u(n)}')
        if isinstance(n, ast.Call) and isinstance(n.func, ast.Attribute) and n.func.attr in ('pop', 'popitem', 'clear', 'update', 'setdefault', '__delitem__', '__setitem__') and not (n.args and isinstance(n.args[0], ast.Constant) and n.args[0].value != 'items'):
            touched.append(u(n)[:60])
    rets = [s_ for s_ in stmts_in(fj.node.body) if isinstance(s_, ast.Return)]
    flows = bool(rets) and all(_resolve_local(fj, s_.value, s_) is ad[0] for s_ in rets)
    rep.require(flows or touched or not keeps, '_results_to_json: the returned value is not the asdict(...) mapping itself')
    rep.add('A8', fj.site(), 'JSON: the items list is exported as is (no reordering / filtering)', keeps and not touched, expected='field `items` kept and left untouched', found=touched or [u(ad[0])], stmt='json items')


def check(ctx):
    rep = ctx.rep
    rep.rule('A1', 'get_sequence_files: ids and files are order-preserving one-to-one images of one list per channel; from_paths / read_lines keep order')
    rep.rule('A2', 'label = basename with .gz stripped before the FASTA suffix; at most one suffix each')
    rep.rule('A3', 'query_cmd / query_parse: labels, files, signatures and inputs share one root; labels zipped strictly')
    rep.rule('A4', 'query(): len check; items[i] from dmat[i, :] and inputs[i]; rows follow queries')
    rep.rule('A5', 'signature-file channel: inputs from sigs.ids, queries = sigs of the same object')
    rep.rule('A6', 'effect analysis over the per-row call-graph closure: no write outside locals; no module-level mutable state')
    rep.rule('A7', 'progress iterator transparent; cores only to thread/worker sinks; chunk size only to the chunked computation')
    rep.rule('A8', 'exporters iterate results.items in order')
    rep.trusted += ['list/map/comprehension/enumerate/zip(strict=True) preserve order', 'calc_file_signatures is order-preserving for every schedule (C13)', 'matrix cells do not depend on chunking / threads (C05)']
    rep.assumptions += ['That gzip / plain / signature-file channels yield the same signature is C01/C06/C12.']
    check_sequence_files(ctx)
    check_labels(ctx)
    from ..clirules import check_path_types
    check_path_types(rep, ctx.model, 'A2')
    check_query_paths(ctx)
    check_query(ctx)
    check_independence(ctx)
    check_transparency(ctx)
    # "for any reference chunk size": the distance row a result is built from is the same for every chunking (C05-B5 re-evaluated)
    from . import c05
    rep.rule('B5', 'C05-B5 re-evaluated: jaccarddist_matrix - one slice selects the reference chunk and the output columns, chunk_slices tiles [0, n), for every chunk size')
    c05.check_matrix(ctx)
    check_exporters(ctx)
    # "identical whether the genome is passed ... gzip-compressed": the compression / parsing clauses of C06, re-evaluated
    from . import c06
    rep.rule('F4', "C06-F4 re-evaluated: content-based compression detection at every CLI site; gzip stream handling")
    rep.rule('F5', 'C06-F5 re-evaluated: parse() stream handling')
    c06.check_compression(ctx)
    c06.check_parse(ctx)
    # "alone or within any batch in any order, for any number of cores": the batch computation must give each file its own
    # single-file signature in file order - the C13 clauses and the per-record/per-file isolation clause of C06, re-evaluated
    from . import c13
    c13.declare_rules(rep)
    rep.rule('F1', 'C06-F1 re-evaluated: per-record isolation, one accumulator per file')
    c13.core(ctx)
    c06.check_isolation(ctx)


from ..variants import V  # noqa: E402

_Q = 'src/gambit/query.py'
_C = 'src/gambit/cli/common.py'
_CQ = 'src/gambit/cli/query.py'
_R = 'src/gambit/results.py'
_GFI_OLD = "\tid = os.fspath(path)\n\tif strip_dir:\n\t\tid = os.path.basename(id)\n\t\tif strip_ext:\n\t\t\tid = strip_seq_file_ext(id)\n\treturn id\n"
_SSE_OLD = "\tfilename = strip_extensions(filename, GZIP_EXTENSIONS)\n\tfilename = strip_extensions(filename, FASTA_EXTENSIONS)\n\treturn filename\n"
_SE_OLD = "\tfor ext in extensions:\n\t\tif filename.endswith(ext):\n\t\t\treturn filename[:-len(ext)]\n\treturn filename\n"
_ITEMS_OLD = "items = [get_result_item(db, params, dmat[i, :], input) for i, input in enumerate(inputs_iter)]"
_CSV_OLD = "\t\t\tfor item in results.items:\n\t\t\t\twriter.writerow(self.get_row(item))\n"
_EXPORT_OLD = ("\t\twith maybe_open(file_or_path, 'w') as f:\n\t\t\twriter = csv.writer(f, **self.format_opts)\n\n\t\t\twriter.writerow(self.get_header())\n" + _CSV_OLD)
_GEN_NEW = ("\t\twith maybe_open(file_or_path, 'w') as f:\n\t\t\tcsv.writer(f, **self.format_opts).writerows(self._iter_rows(results))\n\n"
            "\tdef _iter_rows(self, results):\n\t\tyield self.get_header()\n\t\tyield from map(self.get_row, @ITEMS@)\n")
_IO = 'src/gambit/util/io.py'
_ITEMS_W_OLD = "\t\t" + _ITEMS_OLD + "\n"
_ITEMS_LOOP = "\t\titems = []\n\t\tfor input, dists in @IT@:\n\t\t\t@PRE@@APP@\n"
_QP_OLD = ("\tif file_labels is None:\n\t\tinputs = files\n\telse:\n\t\tinputs = [QueryInput(label, file) for label, file in zip_strict(file_labels, files)]\n\n"
           "\tquery_sigs = calc_file_signatures(db.signatures.kmerspec, files, **parse_kw)\n\n\treturn query(db, query_sigs, params, inputs=inputs, progress=pconf, **kw)\n")
_QP_NEW = ("\tquery_sigs = calc_file_signatures(db.signatures.kmerspec, files, **parse_kw)\n\n"
           "\treturn query(db, query_sigs, params, inputs=@V@, progress=pconf, **kw)\n")
_ZS_OLD = "\tif sys.version_info >= (3, 10):\n\t\t# Version 3.10+ has strict parameter for builtin zip()\n\t\treturn zip(*iterables, strict=True)\n\telse:\n\t\treturn _zip_strict(*iterables)\n"
_GSF_OLD = ("\tif explicit:\n\t\tpaths = list(map(Path, explicit))\n\t\tpaths_str = list(map(str, paths))\n\n\telif listfile is not None:\n\t\tlines = list(read_lines(listfile, skip_empty=True))\n"
            "\t\tpaths = [Path(listfile_dir) / line for line in lines]\n\t\tpaths_str = lines\n\n\telse:\n\t\treturn None, None\n\n"
            "\tfiles = SequenceFile.from_paths(paths, 'fasta', 'auto')\n\tids = [get_file_id(f, strip_dir, strip_ext) for f in paths_str]\n")
_GSF_PAIRS = ("\tif explicit:\n\t\tnamed_paths = [(str(path), path) for path in map(Path, explicit)]\n\n\telif listfile is not None:\n\t\tlines = list(read_lines(listfile, skip_empty=True))\n"
              "\t\tnamed_paths = [(line, @LP@) for line in lines]\n\n\telse:\n\t\treturn None, None\n\n"
              "\tfiles = SequenceFile.from_paths([@FILES@], 'fasta', 'auto')\n\tids = [get_file_id(name, strip_dir, strip_ext) for name, path in @IDS@]\n")
_RL_OLD = "\t\t\tif not (skip_empty and not line):\n\t\t\t\tyield line\n"
_JS_OLD = "\t\tdata = asdict(results, recurse=False)\n\t\tdel data['params']  # Parameters not currently exposed thru CLI, so omit for now.\n\t\treturn data\n"
_CMD_OLD = ("\t\tinputs = [QueryInput(id) for id in sigs.ids]\n\t\tresults = query(db, sigs, params, inputs=inputs, progress=pconf)\n\n\telse:\n"
            "\t\tids, files = common.get_sequence_files(files_arg, listfile, ldir)\n"
            "\t\tcommon.warn_duplicate_file_ids(ids, 'Warning: the following query file IDs are present more than once: {ids}')\n"
            "\t\tresults = query_parse(\n\t\t\tdb, files, params,\n\t\t\tfile_labels=ids,\n\t\t\tprogress=pconf,\n\t\t\tparse_kw=dict(max_workers=cores),\n\t\t)\n\n\texporter.export(output, results)\n")
_CMD_NEW = ("\t\tinputs = [QueryInput(id) for id in sigs.ids]\n\n\telse:\n"
            "\t\tids, files = common.get_sequence_files(files_arg, listfile, ldir)\n"
            "\t\tcommon.warn_duplicate_file_ids(ids, 'Warning: the following query file IDs are present more than once: {ids}')\n"
            "\t\tinputs = [@QI@ in @ZIP@]\n"
            "\t\tsigs = calc_file_signatures(db.signatures.kmerspec, @F@, progress=pconf.update(desc='Parsing input'), max_workers=cores)\n\n"
            "\texporter.export(output, query(db, sigs, params, inputs=inputs, progress=pconf))\n")
_RANK_OLD = "\twith iter_progress(inputs, pconf, desc='Classifying') as inputs_iter:\n" + _ITEMS_W_OLD
_RANK_NEW = ("\tranked = @R@\n\twith iter_progress(inputs, pconf, desc='Classifying') as inputs_iter:\n"
             "\t\titems = [get_result_item(db, params, dists, input, closest=@C@) for @T@ in @Z@]\n")
_RANK_ALSO = ((_Q, "dists: np.ndarray, input: QueryInput) -> QueryResultItem:", "dists: np.ndarray, input: QueryInput, closest=None) -> QueryResultItem:"),
              (_Q, "for i in np.argsort(dists, kind='stable')[:params.report_closest]]", "for i in (np.argsort(dists, kind='stable')[:params.report_closest] if closest is None else closest)]"))
VARIANTS = [
    V('guard clause: a single result is not exported (early-exit probe)', 'B', 'src/gambit/cli/query.py', "\texporter.export(output, results)\n", "\tif len(results.items) == 1:\n\t\treturn\n\texporter.export(output, results)\n", 'A8'),
    V('zip for zip_strict', 'B', _Q, "for label, file in zip_strict(file_labels, files)]", "for label, file in zip(file_labels, files)]", 'A3'),
    V('files sorted in query_parse', 'B', _Q, "\tquery_sigs = calc_file_signatures(db.signatures.kmerspec, files, **parse_kw)", "\tquery_sigs = calc_file_signatures(db.signatures.kmerspec, sorted(files), **parse_kw)", 'A3'),
    V('row 0 for every item', 'B', _Q, "dmat[i, :], input) for i, input in enumerate(inputs_iter)]", "dmat[0, :], input) for i, input in enumerate(inputs_iter)]", 'A4'),
    V('FASTA extension stripped before gzip', 'B', _C, "\tfilename = strip_extensions(filename, GZIP_EXTENSIONS)\n\tfilename = strip_extensions(filename, FASTA_EXTENSIONS)", "\tfilename = strip_extensions(filename, FASTA_EXTENSIONS)\n\tfilename = strip_extensions(filename, GZIP_EXTENSIONS)", 'A2'),
    V('ids from sorted path strings', 'B', _C, "ids = [get_file_id(f, strip_dir, strip_ext) for f in paths_str]", "ids = [get_file_id(f, strip_dir, strip_ext) for f in sorted(paths_str)]", 'A1'),
    V('duplicate files dropped', 'B', _C, "\t\tpaths = list(map(Path, explicit))\n", "\t\tpaths = list(dict.fromkeys(map(Path, explicit)))\n", 'A1'),
    V('length check dropped', 'B', _Q, "\t\tif len(inputs) != len(queries):\n\t\t\traise ValueError('Number of inputs does not match number of queries.')\n", "", 'A4'),
    V('state carried between rows', 'B', _Q, "\tclsresult = classify(db.genomes, dists, strict=params.classify_strict)\n", "\tclsresult = classify(db.genomes, dists, strict=params.classify_strict)\n\tparams.report_closest = max(1, params.report_closest - 1)\n", 'A6'),
    V('module-level cache of results', 'B', _Q, "def get_result_item(", "_CACHE = {}\n\n\ndef get_result_item(", 'A6'),
    V('sigfile labels reversed', 'B', _CQ, "inputs = [QueryInput(id) for id in sigs.ids]", "inputs = [QueryInput(id) for id in sigs.ids[::-1]]", 'A5'),
    V('cores selects the rows', 'B', _CQ, "\t\t\tdb, files, params,\n", "\t\t\tdb, files[:cores], params,\n", 'A'),
    V('progress iterator skips an item', 'B', 'src/gambit/util/progress.py', "\t\t\tvalue = next(self.itr)\n", "\t\t\tvalue = next(self.itr)\n\t\t\tif self._first is None:\n\t\t\t\tvalue = next(self.itr)\n", 'A7'),
    V('labels keep the directory', 'B', _C, "\t\tid = os.path.basename(id)\n", "\t\tid = os.path.normpath(id)\n", 'A2'),
    V('list-file base directory ignored', 'B', _C, "paths = [Path(listfile_dir) / line for line in lines]", "paths = [Path(line) for line in lines]", 'A1'),
    V('csv rows sorted by label', 'B', 'src/gambit/results.py', "\t\t\tfor item in results.items:", "\t\t\tfor item in sorted(results.items, key=lambda it: it.input.label):", 'A8'),
    V('gzip read through one-shot zlib.decompress (first member only; seeded C08a)', 'B', 'src/gambit/util/io.py', "binary = gzip.GzipFile(fileobj=file, mode='rb')",
      "binary = BytesIO(zlib.decompress(file.read(), zlib.MAX_WBITS | 16))", 'F4'),
    V('files submitted in chunks sharing one accumulator (seeded C08b, reduced)', 'B', 'src/gambit/sigs/calc.py', "\t\t\t\tfuture = executor.submit(calc_file_signature, kspec, file)",
      "\t\t\t\tfuture = executor.submit(calc_file_signature, kspec, file, accumulator=shared)", 'S4'),
    V('E: explicit comprehension instead of map', 'E', _C, "\t\tpaths_str = list(map(str, paths))\n", "\t\tpaths_str = [str(p) for p in paths]\n"),
    V('E: dmat[i] row form', 'E', _Q, "dmat[i, :], input) for i, input in enumerate(inputs_iter)]", "dmat[i], input) for i, input in enumerate(inputs_iter)]"),
    # ---- idioms accepted by the value-flow forms of the rules, each with its broken twin
    # A2 label derivation: guard clause + conditional expression + value bound to a new local
    V('E: get_file_id with guard clause and conditional expression', 'E', _C, _GFI_OLD,
      "\tid = os.fspath(path)\n\tif not strip_dir:\n\t\treturn id\n\tname = os.path.basename(id)\n\treturn strip_seq_file_ext(name) if strip_ext else name\n"),
    V('guard-clause get_file_id strips the extension of the full path (directory kept)', 'B', _C, _GFI_OLD,
      "\tid = os.fspath(path)\n\tif not strip_dir:\n\t\treturn id\n\tname = os.path.basename(id)\n\treturn strip_seq_file_ext(id) if strip_ext else name\n", 'A2'),
    V('guard-clause get_file_id returns early on the wrong flag (default label unstripped)', 'B', _C, _GFI_OLD,
      "\tid = os.fspath(path)\n\tif strip_dir:\n\t\treturn id\n\tname = os.path.basename(id)\n\treturn strip_seq_file_ext(name) if strip_ext else name\n", 'A2'),
    V('E: get_file_id as one nested conditional expression', 'E', _C, _GFI_OLD,
      "\tid = os.fspath(path)\n\treturn (strip_seq_file_ext(os.path.basename(id)) if strip_ext else os.path.basename(id)) if strip_dir else id\n"),
    # A2 strip order: loop over a literal tuple of the two tables / nested call
    V('E: extension groups stripped in a loop over a literal tuple', 'E', _C, _SSE_OLD,
      "\tfor extensions in (GZIP_EXTENSIONS, FASTA_EXTENSIONS):\n\t\tfilename = strip_extensions(filename, extensions)\n\treturn filename\n"),
    V('loop over the extension groups in the wrong order', 'B', _C, _SSE_OLD,
      "\tfor extensions in (FASTA_EXTENSIONS, GZIP_EXTENSIONS):\n\t\tfilename = strip_extensions(filename, extensions)\n\treturn filename\n", 'A2'),
    V('loop over the extension groups always strips the original name (only the last group counts)', 'B', _C, _SSE_OLD,
      "\toriginal = filename\n\tfor extensions in (GZIP_EXTENSIONS, FASTA_EXTENSIONS):\n\t\tfilename = strip_extensions(original, extensions)\n\treturn filename\n", 'A2'),
    V('E: extension groups stripped by a nested call', 'E', _C, _SSE_OLD,
      "\treturn strip_extensions(strip_extensions(filename, GZIP_EXTENSIONS), FASTA_EXTENSIONS)\n"),
    V('nested call strips FASTA inside gzip', 'B', _C, _SSE_OLD,
      "\treturn strip_extensions(strip_extensions(filename, FASTA_EXTENSIONS), GZIP_EXTENSIONS)\n", 'A2'),
    # A2 first-match search: next() over the matches / assignment + break
    V('E: first matching extension through next()', 'E', _C, _SE_OLD,
      "\tmatched = next((ext for ext in extensions if filename.endswith(ext)), None)\n\tif matched is None:\n\t\treturn filename\n\treturn filename[:-len(matched)]\n"),
    V('E: first matching extension through next(), conditional expression', 'E', _C, _SE_OLD,
      "\tmatched = next((ext for ext in extensions if filename.endswith(ext)), None)\n\treturn filename if matched is None else filename[:-len(matched)]\n"),
    V('next() search cuts one character too many', 'B', _C, _SE_OLD,
      "\tmatched = next((ext for ext in extensions if filename.endswith(ext)), None)\n\tif matched is None:\n\t\treturn filename\n\treturn filename[:-len(matched) - 1]\n", 'A2'),
    V('next() search matches the extension anywhere in the name', 'B', _C, _SE_OLD,
      "\tmatched = next((ext for ext in extensions if ext in filename), None)\n\tif matched is None:\n\t\treturn filename\n\treturn filename[:-len(matched)]\n", 'A2'),
    V('next() search with the outcomes swapped', 'B', _C, _SE_OLD,
      "\tmatched = next((ext for ext in extensions if filename.endswith(ext)), None)\n\tif matched is not None:\n\t\treturn filename\n\treturn filename[:-len(matched)]\n", 'A2'),
    V('E: first matching extension recorded, then break', 'E', _C, _SE_OLD,
      "\tfor ext in extensions:\n\t\tif filename.endswith(ext):\n\t\t\tfilename = filename[:-len(ext)]\n\t\t\tbreak\n\treturn filename\n"),
    V('assignment form without the break (several suffixes removed)', 'B', _C, _SE_OLD,
      "\tfor ext in extensions:\n\t\tif filename.endswith(ext):\n\t\t\tfilename = filename[:-len(ext)]\n\treturn filename\n", 'A2'),
    V('early-return search strips characters instead of the suffix', 'B', _C, "\t\t\treturn filename[:-len(ext)]\n", "\t\t\treturn filename.rstrip(ext)\n", 'A2'),
    # A4 pairing: rows iterated in lock step with the inputs; position counter with an offset
    V('E: zip(inputs, matrix rows) instead of enumerate + index', 'E', _Q, _ITEMS_OLD, "items = [get_result_item(db, params, dists, input) for input, dists in zip(inputs_iter, dmat)]"),
    V('E: zip(matrix rows, inputs)', 'E', _Q, _ITEMS_OLD, "items = [get_result_item(db, params, dists, input) for dists, input in zip(dmat, inputs_iter)]"),
    V('zip pairs the inputs with the rows in reverse order', 'B', _Q, _ITEMS_OLD, "items = [get_result_item(db, params, dists, input) for input, dists in zip(inputs_iter, dmat[::-1])]", 'A4'),
    V('zip pairs the inputs with the columns of the matrix', 'B', _Q, _ITEMS_OLD, "items = [get_result_item(db, params, dists, input) for input, dists in zip(inputs_iter, dmat.T)]", 'A4'),
    V('zip form with the target names crossed', 'B', _Q, _ITEMS_OLD, "items = [get_result_item(db, params, dists, input) for dists, input in zip(inputs_iter, dmat)]", 'A4'),
    V('E: enumerate from 1 with the row index shifted back', 'E', _Q, _ITEMS_OLD, "items = [get_result_item(db, params, dmat[i - 1, :], input) for i, input in enumerate(inputs_iter, 1)]"),
    V('enumerate from 1 but row index not shifted (off by one row)', 'B', _Q, _ITEMS_OLD, "items = [get_result_item(db, params, dmat[i, :], input) for i, input in enumerate(inputs_iter, 1)]", 'A4'),
    V('E: items as list(<generator expression over zip>)', 'E', _Q, _ITEMS_OLD,
      "items = list(get_result_item(db, params, dists, input) for input, dists in zip(inputs_iter, dmat))"),
    V('items comprehension with a filter (rows dropped)', 'B', _Q, _ITEMS_OLD, "items = [get_result_item(db, params, dmat[i, :], input) for i, input in enumerate(inputs_iter) if input.label]", 'A4'),
    # A4 length bookkeeping: len(queries) named once; default numbering over range(1, n + 1)
    V('E: len(queries) bound to a local, default labels from range(1, n + 1)', 'E', _Q, "\tif len(queries) == 0:\n", "\tnqueries = len(queries)\n\tif nqueries == 0:\n",
      also=((_Q, "\t\tif len(inputs) != len(queries):\n", "\t\tif len(inputs) != nqueries:\n"),
            (_Q, "inputs = [QueryInput(str(i + 1)) for i in range(len(queries))]", "inputs = [QueryInput(str(position)) for position in range(1, nqueries + 1)]"))),
    V('default labels one short (range(1, n))', 'B', _Q, "\tif len(queries) == 0:\n", "\tnqueries = len(queries)\n\tif nqueries == 0:\n",
      'A4', also=((_Q, "inputs = [QueryInput(str(i + 1)) for i in range(len(queries))]", "inputs = [QueryInput(str(position)) for position in range(1, nqueries)]"),)),
    V('length compared with a stale count taken before the queries are known', 'B', _Q, "\tqueries = list(queries)\n", "\tqueries = list(queries)\n\tnqueries = len(db.genomes)\n",
      'A4', also=((_Q, "\t\tif len(inputs) != len(queries):\n", "\t\tif len(inputs) != nqueries:\n"),)),
    # A5 labels of the signature-file channel through map
    V('E: sigfile labels through list(map(QueryInput, ids))', 'E', _CQ, "inputs = [QueryInput(id) for id in sigs.ids]", "inputs = list(map(QueryInput, sigs.ids))"),
    V('sigfile labels through map over the sorted ids', 'B', _CQ, "inputs = [QueryInput(id) for id in sigs.ids]", "inputs = list(map(QueryInput, sorted(sigs.ids)))", 'A5'),
    V('sigfile labels are positions, not the stored ids', 'B', _CQ, "inputs = [QueryInput(id) for id in sigs.ids]", "inputs = [QueryInput(str(n)) for n, id in enumerate(sigs.ids)]", 'A5'),
    V('sigfile labels through map of a different constructor', 'B', _CQ, "inputs = [QueryInput(id) for id in sigs.ids]", "inputs = list(map(str, sigs.ids))", 'A5'),
    # A8 rows handed to the csv writer in bulk: map / comprehension / generator method
    V('E: csv rows through writerows(map(get_row, items))', 'E', _R, _CSV_OLD, "\t\t\twriter.writerows(map(self.get_row, results.items))\n"),
    V('E: csv header and rows through one writerows over a concatenation', 'E', _R, "\t\t\twriter.writerow(self.get_header())\n" + _CSV_OLD,
      "\t\t\twriter.writerows([self.get_header()] + [self.get_row(item) for item in results.items])\n"),
    V('writerows over the reversed items', 'B', _R, _CSV_OLD, "\t\t\twriter.writerows(map(self.get_row, reversed(results.items)))\n", 'A8'),
    V('writerows over a filtered comprehension (rows dropped)', 'B', _R, _CSV_OLD, "\t\t\twriter.writerows([self.get_row(item) for item in results.items if item.report_taxon is not None])\n", 'A8'),
    V('E: csv rows from a generator method (header, then one row per item)', 'E', _R, _EXPORT_OLD, _GEN_NEW.replace('@ITEMS@', 'results.items')),
    V('generator method yields the rows of the items sorted by label', 'B', _R, _EXPORT_OLD, _GEN_NEW.replace('@ITEMS@', 'sorted(results.items, key=lambda it: it.input.label)'), 'A8'),
    V('generator method yields every item row twice', 'B', _R, _EXPORT_OLD, _GEN_NEW.replace("\t\tyield from map(self.get_row, @ITEMS@)\n", "\t\tfor item in results.items:\n\t\t\tyield self.get_row(item)\n\t\tyield from map(self.get_row, results.items)\n"), 'A8'),
    V('E: row bound to a local before it is written', 'E', _R, "\t\t\t\twriter.writerow(self.get_row(item))\n", "\t\t\t\trow = self.get_row(item)\n\t\t\t\twriter.writerow(row)\n"),
    V('row of the first item written for every item', 'B', _R, "\t\t\t\twriter.writerow(self.get_row(item))\n", "\t\t\t\trow = self.get_row(results.items[0])\n\t\t\t\twriter.writerow(row)\n", 'A8'),
    # ---- second pass: append loops, (name, path) pairs, conditional expressions, read_lines body, default label value, JSON filter
    V('E: items filled by an append loop over zip_strict(inputs, rows)', 'E', _Q, _ITEMS_W_OLD, _ITEMS_LOOP.replace('@IT@', 'zip_strict(inputs_iter, dmat)').replace('@PRE@', '').replace('@APP@', 'items.append(get_result_item(db, params, dists, input))')),
    V('E: append loop, row result bound to a local first', 'E', _Q, _ITEMS_W_OLD, _ITEMS_LOOP.replace('@IT@', 'zip(inputs_iter, dmat)').replace('@PRE@', 'item = get_result_item(db, params, dists, input)\n\t\t\t').replace('@APP@', 'items.append(item)')),
    V('append loop pairs the inputs with the reversed rows', 'B', _Q, _ITEMS_W_OLD, _ITEMS_LOOP.replace('@IT@', 'zip(inputs_iter, dmat[::-1])').replace('@PRE@', '').replace('@APP@', 'items.append(get_result_item(db, params, dists, input))'), 'A4'),
    V('append loop appends only under a condition (rows dropped)', 'B', _Q, _ITEMS_W_OLD, _ITEMS_LOOP.replace('@IT@', 'zip(inputs_iter, dmat)').replace('@PRE@', 'if input.file is not None:\n\t\t\t\t').replace('@APP@', 'items.append(get_result_item(db, params, dists, input))'), 'A4'),
    V('append loop skips iterations with continue', 'B', _Q, _ITEMS_W_OLD, _ITEMS_LOOP.replace('@IT@', 'zip(inputs_iter, dmat)').replace('@PRE@', 'if not input.label:\n\t\t\t\tcontinue\n\t\t\t').replace('@APP@', 'items.append(get_result_item(db, params, dists, input))'), 'A4'),
    V('loop inserts at the front (items in reverse order)', 'B', _Q, _ITEMS_W_OLD, _ITEMS_LOOP.replace('@IT@', 'zip(inputs_iter, dmat)').replace('@PRE@', '').replace('@APP@', 'items.insert(0, get_result_item(db, params, dists, input))'), 'A4'),
    V('append loop, list sorted afterwards', 'B', _Q, _ITEMS_W_OLD, _ITEMS_LOOP.replace('@IT@', 'zip(inputs_iter, dmat)').replace('@PRE@', '').replace('@APP@', 'items.append(get_result_item(db, params, dists, input))') + "\titems.sort(key=lambda it: it.input.label)\n", 'A4'),
    # default label value
    V('default labels start at 0', 'B', _Q, "QueryInput(str(i + 1)) for i in range(len(queries))", "QueryInput(str(i)) for i in range(len(queries))", 'A4'),
    V('default labels shifted the wrong way', 'B', _Q, "QueryInput(str(i + 1)) for i in range(len(queries))", "QueryInput(str(i - 1)) for i in range(len(queries))", 'A4'),
    V('E: default labels from enumerate(queries, 1)', 'E', _Q, "QueryInput(str(i + 1)) for i in range(len(queries))", "QueryInput(str(n)) for n, _ in enumerate(queries, 1)"),
    V('default labels from enumerate(queries) without the start (0-based)', 'B', _Q, "QueryInput(str(i + 1)) for i in range(len(queries))", "QueryInput(str(n)) for n, _ in enumerate(queries)", 'A4'),
    V('E: default labels through an f-string over range(1, n + 1)', 'E', _Q, "QueryInput(str(i + 1)) for i in range(len(queries))", "QueryInput(f'{i}') for i in range(1, len(queries) + 1)"),
    V('range(1, n + 1) and the offset applied again', 'B', _Q, "QueryInput(str(i + 1)) for i in range(len(queries))", "QueryInput(str(i + 1)) for i in range(1, len(queries) + 1)", 'A4'),
    V('E: default labels filled by an append loop', 'E', _Q, "\t\tinputs = [QueryInput(str(i + 1)) for i in range(len(queries))]\n", "\t\tinputs = []\n\t\tfor i in range(len(queries)):\n\t\t\tinputs.append(QueryInput(str(i + 1)))\n"),
    V('default labels appended for every second query only', 'B', _Q, "\t\tinputs = [QueryInput(str(i + 1)) for i in range(len(queries))]\n", "\t\tinputs = []\n\t\tfor i in range(len(queries)):\n\t\t\tif i % 2:\n\t\t\t\tinputs.append(QueryInput(str(i + 1)))\n", 'A4'),
    # conditional expression instead of if / else
    V('E: query_parse inputs as a conditional expression inside the call', 'E', _Q, _QP_OLD, _QP_NEW.replace('@V@', "files if file_labels is None else [QueryInput(label, file) for label, file in zip_strict(file_labels, files)]")),
    V('conditional-expression inputs zipped non-strictly', 'B', _Q, _QP_OLD, _QP_NEW.replace('@V@', "files if file_labels is None else [QueryInput(label, file) for label, file in zip(file_labels, files)]"), 'A3'),
    V('conditional-expression inputs with the arms exchanged', 'B', _Q, _QP_OLD, _QP_NEW.replace('@V@', "[QueryInput(label, file) for label, file in zip_strict(file_labels, files)] if file_labels is None else files"), 'A3'),
    V('E: zip_strict returns through one conditional expression', 'E', 'src/gambit/util/misc.py', _ZS_OLD, "\treturn zip(*iterables, strict=True) if sys.version_info >= (3, 10) else _zip_strict(*iterables)\n"),
    V('zip_strict conditional expression falls back to the plain zip', 'B', 'src/gambit/util/misc.py', _ZS_OLD, "\treturn zip(*iterables, strict=True) if sys.version_info >= (3, 10) else zip(*iterables)\n", 'A3'),
    V('E: convert binds the path label to a local first', 'E', _Q, "\t\t\treturn QueryInput(str(x.path), x)\n", "\t\t\tlabel = str(x.path)\n\t\t\treturn QueryInput(label, x)\n"),
    V('convert labels a file with its repr, bound to a local', 'B', _Q, "\t\t\treturn QueryInput(str(x.path), x)\n", "\t\t\tlabel = str(x)\n\t\t\treturn QueryInput(label, x)\n", 'A4'),
    # get_sequence_files: (name, path) pairs, inline return, append loops
    V('E: get_sequence_files through (name, path) pairs', 'E', _C, _GSF_OLD, _GSF_PAIRS.replace('@LP@', 'Path(listfile_dir) / line').replace('@FILES@', 'path for name, path in named_paths').replace('@IDS@', 'named_paths')),
    V('pairs: list-file path without the base directory', 'B', _C, _GSF_OLD, _GSF_PAIRS.replace('@LP@', 'Path(line)').replace('@FILES@', 'path for name, path in named_paths').replace('@IDS@', 'named_paths'), 'A1'),
    V('pairs: files built from the name component (base directory lost)', 'B', _C, _GSF_OLD, _GSF_PAIRS.replace('@LP@', 'Path(listfile_dir) / line').replace('@FILES@', 'name for name, path in named_paths').replace('@IDS@', 'named_paths'), 'A1'),
    V('pairs: ids taken from the sorted pairs', 'B', _C, _GSF_OLD, _GSF_PAIRS.replace('@LP@', 'Path(listfile_dir) / line').replace('@FILES@', 'path for name, path in named_paths').replace('@IDS@', 'sorted(named_paths)'), 'A1'),
    V('E: ids and files built inline in the return statement', 'E', _C, "\tfiles = SequenceFile.from_paths(paths, 'fasta', 'auto')\n\tids = [get_file_id(f, strip_dir, strip_ext) for f in paths_str]\n\n\treturn ids, files\n",
      "\treturn [get_file_id(f, strip_dir, strip_ext) for f in paths_str], SequenceFile.from_paths(paths, 'fasta', 'auto')\n"),
    V('inline return with the ids of the reversed path strings', 'B', _C, "\tfiles = SequenceFile.from_paths(paths, 'fasta', 'auto')\n\tids = [get_file_id(f, strip_dir, strip_ext) for f in paths_str]\n\n\treturn ids, files\n",
      "\treturn [get_file_id(f, strip_dir, strip_ext) for f in paths_str[::-1]], SequenceFile.from_paths(paths, 'fasta', 'auto')\n", 'A1'),
    V('E: ids filled by an append loop', 'E', _C, "\tids = [get_file_id(f, strip_dir, strip_ext) for f in paths_str]\n", "\tids = []\n\tfor f in paths_str:\n\t\tids.append(get_file_id(f, strip_dir, strip_ext))\n"),
    V('ids append loop skips duplicates (labels and files no longer aligned)', 'B', _C, "\tids = [get_file_id(f, strip_dir, strip_ext) for f in paths_str]\n",
      "\tids = []\n\tfor f in paths_str:\n\t\tif get_file_id(f, strip_dir, strip_ext) not in ids:\n\t\t\tids.append(get_file_id(f, strip_dir, strip_ext))\n", 'A1'),
    V('every label derived from the first path', 'B', _C, "\tids = [get_file_id(f, strip_dir, strip_ext) for f in paths_str]\n", "\tids = [get_file_id(paths_str[0], strip_dir, strip_ext) for f in paths_str]\n", 'A1'),
    V('append loop that never appends (no items)', 'B', _Q, _ITEMS_W_OLD, _ITEMS_LOOP.replace('@IT@', 'zip(inputs_iter, dmat)').replace('@PRE@', '').replace('@APP@', 'get_result_item(db, params, dists, input)'), 'A4'),
    # read_lines body
    V('E: read_lines skips with a continue guard', 'E', _IO, _RL_OLD, "\t\t\tif skip_empty and not line:\n\t\t\t\tcontinue\n\t\t\tyield line\n"),
    V('E: read_lines keeps a line that is non-empty or not to be skipped', 'E', _IO, _RL_OLD, "\t\t\tif line or not skip_empty:\n\t\t\t\tyield line\n"),
    V('E: read_lines tests emptiness by length', 'E', _IO, _RL_OLD, "\t\t\tif skip_empty and len(line) == 0:\n\t\t\t\tcontinue\n\t\t\tyield line\n"),
    V('read_lines yields only what it should skip', 'B', _IO, _RL_OLD, "\t\t\tif skip_empty and not line:\n\t\t\t\tyield line\n", 'A1'),
    V('read_lines drops a line when skip_empty OR empty', 'B', _IO, _RL_OLD, "\t\t\tif not (skip_empty or not line):\n\t\t\t\tyield line\n", 'A1'),
    V('read_lines continue guard without the emptiness test (every line dropped when skip_empty)', 'B', _IO, _RL_OLD, "\t\t\tif skip_empty:\n\t\t\t\tcontinue\n\t\t\tyield line\n", 'A1'),
    V('read_lines strips only when strip is false', 'B', _IO, "\t\t\tline = line.strip() if strip else line.rstrip('\\n')\n", "\t\t\tline = line.rstrip('\\n') if strip else line.strip()\n", 'A1'),
    V('read_lines yields the raw line (newline kept)', 'B', _IO, "\t\t\tline = line.strip() if strip else line.rstrip('\\n')\n", "\t\t\tstripped = line.strip() if strip else line.rstrip('\\n')\n", 'A1',
      also=((_IO, _RL_OLD, "\t\t\tif not (skip_empty and not stripped):\n\t\t\t\tyield line\n"),)),
    V('read_lines tests emptiness before stripping (blank lines never skipped)', 'B', _IO, "\t\t\tline = line.strip() if strip else line.rstrip('\\n')\n" + _RL_OLD,
      "\t\t\tif skip_empty and not line:\n\t\t\t\tcontinue\n\t\t\tyield line.strip() if strip else line.rstrip('\\n')\n", 'A1'),
    V('read_lines stops at the first blank line', 'B', _IO, _RL_OLD, "\t\t\tif skip_empty and not line:\n\t\t\t\tbreak\n\t\t\tyield line\n", 'A1'),
    V('read_lines default strip=False (list-file names keep surrounding whitespace)', 'B', _IO, "strip: bool=True, skip_empty: bool=False", "strip: bool=False, skip_empty: bool=False", 'A1'),
    V('read_lines default skip_empty=True', 'B', _IO, "strip: bool=True, skip_empty: bool=False", "strip: bool=True, skip_empty: bool=True", 'A1'),
    V('E: list-file call passes strip=True explicitly', 'E', _C, "read_lines(listfile, skip_empty=True)", "read_lines(listfile, strip=True, skip_empty=True)"),
    V('list-file call reads the lines unstripped', 'B', _C, "read_lines(listfile, skip_empty=True)", "read_lines(listfile, strip=False, skip_empty=True)", 'A1'),
    # JSON exporter
    V('E: JSON mapping through asdict(filter=...) dropping params', 'E', _R, _JS_OLD, "\t\treturn asdict(results, recurse=False, filter=lambda field, value: field.name != 'params')\n"),
    V('asdict filter also drops the items', 'B', _R, _JS_OLD, "\t\treturn asdict(results, recurse=False, filter=lambda field, value: field.name not in ('params', 'items'))\n", 'A8'),
    V('asdict filter keeps only the parameters', 'B', _R, _JS_OLD, "\t\treturn asdict(results, recurse=False, filter=lambda field, value: field.name == 'params')\n", 'A8'),
    V('JSON items replaced by a sorted copy', 'B', _R, "\t\tdel data['params']  # Parameters not currently exposed thru CLI, so omit for now.\n", "\t\tdel data['params']\n\t\tdata['items'] = sorted(data['items'], key=lambda it: it.input.label)\n", 'A8'),
    V('JSON mapping recursed into (items no longer exported as the objects they are)', 'B', _R, "\t\tdata = asdict(results, recurse=False)\n", "\t\tdata = asdict(results, recurse=True)\n", 'A8'),
    # ---- third pass: helpers written out / folded, next() with the no-match value as default, the file channel done in the command,
    # standard-library containers as local state
    V('E: get_file_id with the two strip_extensions steps written out', 'E', _C, "\t\t\tid = strip_seq_file_ext(id)\n", "\t\t\tid = strip_extensions(id, GZIP_EXTENSIONS)\n\t\t\tid = strip_extensions(id, FASTA_EXTENSIONS)\n"),
    V('written-out steps in the wrong order (FASTA before gzip)', 'B', _C, "\t\t\tid = strip_seq_file_ext(id)\n", "\t\t\tid = strip_extensions(id, FASTA_EXTENSIONS)\n\t\t\tid = strip_extensions(id, GZIP_EXTENSIONS)\n", 'A2'),
    V('written-out steps: only the gzip extension is stripped', 'B', _C, "\t\t\tid = strip_seq_file_ext(id)\n", "\t\t\tid = strip_extensions(id, GZIP_EXTENSIONS)\n", 'A2'),
    V('E: extension groups folded with functools.reduce', 'E', _C, _SSE_OLD, "\treturn reduce(strip_extensions, (GZIP_EXTENSIONS, FASTA_EXTENSIONS), filename)\n",
      also=((_C, "from collections import Counter\n", "from collections import Counter\nfrom functools import reduce\n"),)),
    V('reduce over the groups in the wrong order', 'B', _C, _SSE_OLD, "\treturn reduce(strip_extensions, (FASTA_EXTENSIONS, GZIP_EXTENSIONS), filename)\n", 'A2',
      also=((_C, "from collections import Counter\n", "from collections import Counter\nfrom functools import reduce\n"),)),
    V('reduce without the file name as the initial value (the gzip table is taken as the name)', 'B', _C, _SSE_OLD, "\treturn reduce(strip_extensions, (GZIP_EXTENSIONS, FASTA_EXTENSIONS))\n", 'A2',
      also=((_C, "from collections import Counter\n", "from collections import Counter\nfrom functools import reduce\n"),)),
    V('E: next() over the stripped names with the name itself as default', 'E', _C, _SE_OLD,
      "\tstripped = (filename[:-len(ext)] for ext in extensions if filename.endswith(ext))\n\treturn next(stripped, filename)\n"),
    V('next() over the stripped names, default None (no match gives None)', 'B', _C, _SE_OLD,
      "\tstripped = (filename[:-len(ext)] for ext in extensions if filename.endswith(ext))\n\treturn next(stripped, None)\n", 'A2'),
    V('next() over the stripped names cuts the wrong end', 'B', _C, _SE_OLD,
      "\tstripped = (filename[len(ext):] for ext in extensions if filename.endswith(ext))\n\treturn next(stripped, filename)\n", 'A2'),
    V('next() over the stripped names without the suffix test (first extension length always cut)', 'B', _C, _SE_OLD,
      "\tstripped = (filename[:-len(ext)] for ext in extensions)\n\treturn next(stripped, filename)\n", 'A2'),
    V('E: genome-file channel done in the command (one shared query call)', 'E', _CQ, _CMD_OLD, _CMD_NEW.replace('@ZIP@', 'zip_strict(ids, files)').replace('@QI@', 'QueryInput(id, file) for id, file').replace('@F@', 'files'),
      also=((_CQ, "from gambit.query import QueryParams, QueryInput, query, query_parse\n", "from gambit.query import QueryParams, QueryInput, query, query_parse\nfrom gambit.sigs.calc import calc_file_signatures\nfrom gambit.util.misc import zip_strict\n"),)),
    V('inlined file channel zips labels and files non-strictly', 'B', _CQ, _CMD_OLD, _CMD_NEW.replace('@ZIP@', 'zip(ids, files)').replace('@QI@', 'QueryInput(id, file) for id, file').replace('@F@', 'files'), 'A3',
      also=((_CQ, "from gambit.query import QueryParams, QueryInput, query, query_parse\n", "from gambit.query import QueryParams, QueryInput, query, query_parse\nfrom gambit.sigs.calc import calc_file_signatures\nfrom gambit.util.misc import zip_strict\n"),)),
    V('inlined file channel crosses label and file', 'B', _CQ, _CMD_OLD, _CMD_NEW.replace('@ZIP@', 'zip_strict(ids, files)').replace('@QI@', 'QueryInput(id, file) for file, id').replace('@F@', 'files'), 'A3',
      also=((_CQ, "from gambit.query import QueryParams, QueryInput, query, query_parse\n", "from gambit.query import QueryParams, QueryInput, query, query_parse\nfrom gambit.sigs.calc import calc_file_signatures\nfrom gambit.util.misc import zip_strict\n"),)),
    V('inlined file channel computes the signatures from the sorted files', 'B', _CQ, _CMD_OLD, _CMD_NEW.replace('@ZIP@', 'zip_strict(ids, files)').replace('@QI@', 'QueryInput(id, file) for id, file').replace('@F@', 'sorted(files)'), 'A3',
      also=((_CQ, "from gambit.query import QueryParams, QueryInput, query, query_parse\n", "from gambit.query import QueryParams, QueryInput, query, query_parse\nfrom gambit.sigs.calc import calc_file_signatures\nfrom gambit.util.misc import zip_strict\n"),)),
    V('shared query call, but the signature-file inputs are read from the sorted ids', 'B', _CQ, _CMD_OLD, _CMD_NEW.replace('@ZIP@', 'zip_strict(ids, files)').replace('@QI@', 'QueryInput(id, file) for id, file').replace('@F@', 'files')
      .replace('for id in sigs.ids]', 'for id in sorted(sigs.ids)]'), 'A5',
      also=((_CQ, "from gambit.query import QueryParams, QueryInput, query, query_parse\n", "from gambit.query import QueryParams, QueryInput, query, query_parse\nfrom gambit.sigs.calc import calc_file_signatures\nfrom gambit.util.misc import zip_strict\n"),)),
    V('E: results exported directly from the query call of each channel', 'E', _CQ, "\t\tresults = query(db, sigs, params, inputs=inputs, progress=pconf)\n", "\t\texporter.export(output, query(db, sigs, params, inputs=inputs, progress=pconf))\n\t\treturn\n"),
    V('E: matches accumulated in a collections.defaultdict(list)', 'E', 'src/gambit/classify.py', "\tmatches = dict()\n", "\tmatches = defaultdict(list)\n",
      also=(('src/gambit/classify.py', "\t\t\tmatches.setdefault(match, []).append(i)\n\n\treturn matches\n", "\t\t\tmatches[match].append(i)\n\n\treturn dict(matches)\n"),
            ('src/gambit/classify.py', "from typing import Optional, Iterable, Sequence\n", "from typing import Optional, Iterable, Sequence\nfrom collections import defaultdict\n"))),
    V('matches accumulated in a module-level defaultdict (shared between rows)', 'B', 'src/gambit/classify.py', "\tmatches = dict()\n", "\tmatches = _MATCHES\n", 'A6',
      also=(('src/gambit/classify.py', "\t\t\tmatches.setdefault(match, []).append(i)\n\n\treturn matches\n", "\t\t\tmatches[match].append(i)\n\n\treturn dict(matches)\n"),
            ('src/gambit/classify.py', "from typing import Optional, Iterable, Sequence\n", "from typing import Optional, Iterable, Sequence\nfrom collections import defaultdict\n\n_MATCHES = defaultdict(list)\n"))),
    V('defaultdict seeded with a pre-existing mapping (its lists are shared)', 'B', 'src/gambit/classify.py', "\tmatches = dict()\n", "\tmatches = defaultdict(list, _SEEN)\n", 'A6',
      also=(('src/gambit/classify.py', "\t\t\tmatches.setdefault(match, []).append(i)\n\n\treturn matches\n", "\t\t\tmatches[match].append(i)\n\n\treturn dict(matches)\n"),
            ('src/gambit/classify.py', "from typing import Optional, Iterable, Sequence\n", "from typing import Optional, Iterable, Sequence\nfrom collections import defaultdict\n\n_SEEN = {}\n"))),
    # ---- fifth pass: further zip operands that are row-aligned derivations of the distance matrix (ranking done once for all rows)
    V('E: ranking of all rows at once, zipped in lock step with inputs and rows', 'E', _Q, _RANK_OLD, _RANK_NEW.replace('@R@', "np.argsort(dmat, axis=1, kind='stable')[:, :params.report_closest]").replace('@Z@', 'zip_strict(inputs_iter, dmat, ranked)').replace('@T@', 'input, dists, closest').replace('@C@', 'closest'), also=_RANK_ALSO),
    V('E: ranking through the argsort method and an array copy, plain zip, operands in another order', 'E', _Q, _RANK_OLD, _RANK_NEW.replace('@R@', "np.asarray(dmat.argsort(axis=-1, kind='stable'))").replace('@Z@', 'zip(ranked, inputs_iter, dmat)').replace('@T@', 'closest, input, dists').replace('@C@', 'closest[:params.report_closest]'), also=_RANK_ALSO),
    V('E: ranking of all rows at once, row picked by the position counter', 'E', _Q, _RANK_OLD, _RANK_NEW.replace('@R@', "np.argsort(dmat, axis=1, kind='stable')[:, :params.report_closest]").replace('@Z@', 'enumerate(inputs_iter)').replace('@T@', 'i, input').replace('dists, input', 'dmat[i, :], input').replace('@C@', 'ranked[i]'), also=_RANK_ALSO),
    V('ranking computed along axis 0 (each column ordered on its own)', 'B', _Q, _RANK_OLD, _RANK_NEW.replace('@R@', "np.argsort(dmat, axis=0, kind='stable')[:, :params.report_closest]").replace('@Z@', 'zip_strict(inputs_iter, dmat, ranked)').replace('@T@', 'input, dists, closest').replace('@C@', 'closest'), 'A4', also=_RANK_ALSO),
    V('ranking computed from the matrix with its rows reversed', 'B', _Q, _RANK_OLD, _RANK_NEW.replace('@R@', "np.argsort(dmat[::-1], axis=1, kind='stable')[:, :params.report_closest]").replace('@Z@', 'zip_strict(inputs_iter, dmat, ranked)').replace('@T@', 'input, dists, closest').replace('@C@', 'closest'), 'A4', also=_RANK_ALSO),
    V('ranking computed from the matrix without its first row (shifted by one query)', 'B', _Q, _RANK_OLD, _RANK_NEW.replace('@R@', "np.argsort(dmat[1:], axis=1, kind='stable')[:, :params.report_closest]").replace('@Z@', 'zip(inputs_iter, dmat, ranked)').replace('@T@', 'input, dists, closest').replace('@C@', 'closest'), 'A4', also=_RANK_ALSO),
    V('ranking rows selected after the sort (ranked[::-1])', 'B', _Q, _RANK_OLD, _RANK_NEW.replace('@R@', "np.argsort(dmat, axis=1, kind='stable')[::-1, :params.report_closest]").replace('@Z@', 'zip_strict(inputs_iter, dmat, ranked)').replace('@T@', 'input, dists, closest').replace('@C@', 'closest'), 'A4', also=_RANK_ALSO),
    V('every item gets the ranking of the first row', 'B', _Q, _RANK_OLD, _RANK_NEW.replace('@R@', "np.argsort(dmat, axis=1, kind='stable')[:, :params.report_closest]").replace('@Z@', 'zip_strict(inputs_iter, dmat, ranked)').replace('@T@', 'input, dists, closest').replace('@C@', 'ranked[0]'), 'A4', also=_RANK_ALSO),
    V('position counter picks the ranking of the next row', 'B', _Q, _RANK_OLD, _RANK_NEW.replace('@R@', "np.argsort(dmat, axis=1, kind='stable')[:, :params.report_closest]").replace('@Z@', 'enumerate(inputs_iter)').replace('@T@', 'i, input').replace('dists, input', 'dmat[i, :], input').replace('@C@', 'ranked[i - 1]'), 'A4', also=_RANK_ALSO),
    V('three-way zip with the targets of rows and ranking crossed', 'B', _Q, _RANK_OLD, _RANK_NEW.replace('@R@', "np.argsort(dmat, axis=1, kind='stable')[:, :params.report_closest]").replace('@Z@', 'zip_strict(inputs_iter, ranked, dmat)').replace('@T@', 'input, dists, closest').replace('@C@', 'closest'), 'A4', also=_RANK_ALSO),
]
