"""C11 - every export format is a faithful image of the query results (agreement clauses).

E1 CSV column paths resolve step by step against the result model (attrs classes, SQLAlchemy columns / relationships / hybrids)
E2 header <-> path agreement (prefix = root, suffix = terminal attribute); header set == documented set (docs/source/cli.rst)
E3 writing discipline: csv.writer, header once, one row per item from COLUMNS in order with pass_none; JSON via json.dump(default=to_json)
E4 JSON item image   E5 archive writer/reader registries agree; key fields written == read
E6 lossless scalar hooks (np.floating -> float, np.integer -> int; datetime / Path paired)
"""
import ast
import os
import re

from ..astutil import (u, atoms, guard_map, path_atoms, stmts_in, calls_in, callee, callee_attr, reaching_def, def_value,
                       PARAM, AMBIGUOUS, get_arg, get_kw, is_none, is_const, block_path)
from ..report import Undecided

R = 'gambit.results'
ROOT_OF_PREFIX = {'predicted': 'report_taxon', 'closest': 'classifier_result.closest_match', 'next': 'classifier_result.next_taxon', 'query': 'input.label'}
SUFFIX_SYNONYM = {'threshold': 'distance_threshold'}
DOC_TYPOS = {'closest.decription': 'closest.description'}   # the documentation's own misspelling, one named exception


def ann_class(m, module, ann):
    """Class a type annotation refers to: Name / 'Name' / Optional[X] / list[X] -> canonical class name or None."""
    if ann is None:
        return None
    if isinstance(ann, ast.Constant) and isinstance(ann.value, str):
        try:
            ann = ast.parse(ann.value, mode='eval').body
        except SyntaxError:
            return None
    if isinstance(ann, ast.Subscript):
        base = u(ann.value)
        if base in ('Optional', 'typing.Optional'):
            return ann_class(m, module, ann.slice)
        return None
    r = m.resolve(module, ann)
    return r if r in m.classes else None


def attr_type(m, cls_name, attr):
    """('ok', next class | None) when `attr` is a declared attribute of the class (walking the MRO); ('missing', None) otherwise."""
    for cn in m.mro(cls_name):
        ci = m.classes.get(cn)
        if ci is None:
            continue
        if attr in ci.annotations:
            return 'ok', ann_class(m, ci.module, ci.annotations[attr])
        if attr in ci.class_attrs:
            v = ci.class_attrs[attr]
            if isinstance(v, ast.Call) and u(v.func) == 'relationship' and v.args and isinstance(v.args[0], ast.Constant):
                tgt = f'{ci.module.name}.{v.args[0].value}'
                return 'ok', tgt if tgt in m.classes else None
            return 'ok', None
        if attr in ci.methods and any(u(d) in ('property', 'hybrid_property') for d in ci.methods[attr].decorators):
            return 'ok', None
        # relationship backrefs declared on the other side are not needed by the export paths
    return 'missing', None


def resolve_path(m, root_cls, path):
    cur = root_cls
    steps = path.split('.')
    for i, a in enumerate(steps):
        if cur is None:
            return False, f'step {a!r}: type of the previous step is not a known class'
        st, nxt = attr_type(m, cur, a)
        if st != 'ok':
            return False, f'{cur.rsplit(".", 1)[1]} has no attribute {a!r}'
        cur = nxt
    return True, 'ok'


def check_csv(ctx):
    rep, m = ctx.rep, ctx.model
    ex = m.cls(f'{R}.CSVResultsExporter')
    cols_node = ex.class_attrs.get('COLUMNS')
    rep.require(cols_node is not None, 'CSVResultsExporter.COLUMNS not found')
    try:
        cols = ast.literal_eval(cols_node)
    except Exception:
        raise Undecided('CSVResultsExporter.COLUMNS is not a literal table')
    rep.floor('E1', 'CSV columns', len(cols), 1)
    for hdr, path in cols:
        ok, why = resolve_path(m, 'gambit.query.QueryResultItem', path)
        rep.add('E1', ex.site(cols_node), f'column {hdr!r}: path {path} resolves against the result model', ok, expected='every step is a declared attribute', found=why, stmt=f'path {hdr}')
        if '.' in hdr:
            pre, suf = hdr.split('.', 1)
        else:
            pre, suf = hdr, None
        want_root = ROOT_OF_PREFIX.get(pre)
        if suf is None:
            okh = want_root is not None and path == want_root
            exp = want_root
        else:
            term = SUFFIX_SYNONYM.get(suf, suf)
            exp = f'{want_root}.{term}' if want_root else None
            if pre == 'closest' and suf == 'description':
                exp = f'{want_root}.genome.description'
            okh = exp is not None and path == exp
        rep.add('E2', ex.site(cols_node), f'column {hdr!r} reports the attribute its header names', okh, expected=exp, found=path, stmt=f'header {hdr}')
    headers = [h for h, _ in cols]
    rep.add('E2', ex.site(cols_node), 'headers are unique', len(set(headers)) == len(headers), expected='unique', found=headers, stmt='unique headers')
    doc = os.path.join(m.repo, 'docs', 'source', 'cli.rst')
    if os.path.exists(doc):
        txt = open(doc, encoding='utf-8').read()
        sec = txt[txt.find('A .csv file with one row per query'):]
        sec = sec[:sec.find('\nJSON')] if '\nJSON' in sec else sec[:3000]
        names = re.findall(r'``([a-z_]+(?:\.[a-z_]+)?)``\s*(?:-|$)', sec, flags=re.M)
        documented = {DOC_TYPOS.get(n, n) for n in names if '.' in n or n == 'query'}
        rep.add('E2', ('docs/source/cli.rst', 108, 'docs.cli.csv-columns'), 'the exported header set equals the documented column set', set(headers) == documented, expected=sorted(documented), found=sorted(headers), stmt='documented columns')
    else:
        raise Undecided('docs/source/cli.rst not found (documented CSV columns)')
    # E3
    fe = ex.methods['export']
    rep.functions.add(fe.qualname)
    wr = [s for s in stmts_in(fe.node.body) if isinstance(s, ast.Assign) and isinstance(s.value, ast.Call) and u(s.value.func) == 'csv.writer']
    rows = [c for c in calls_in(fe.node) if callee_attr(c) == 'writerow']
    okw = len(wr) == 1 and len(rows) == 2 and all(u(c.func.value) == u(wr[0].targets[0]) for c in rows)
    rep.add('E3', fe.site(wr[0] if wr else None), 'rows are emitted only through csv.writer (commas, quotes, newlines, non-ASCII stay parseable)', okw, expected='csv.writer(f, **opts).writerow', found=[u(c)[:60] for c in rows], stmt='csv writer')
    hdr_calls = [c for c in rows if u(c.args[0]) == 'self.get_header()']
    item_calls = [c for c in rows if u(c.args[0]).startswith('self.get_row(')]
    okh = len(hdr_calls) == 1 and len(item_calls) == 1 and hdr_calls[0].lineno < item_calls[0].lineno \
        and not any(isinstance(o, ast.For) for (_, _, o) in block_path(fe.node, next(s for s in stmts_in(fe.node.body) if isinstance(s, ast.Expr) and s.value is hdr_calls[0])))
    rep.add('E3', fe.site(hdr_calls[0] if hdr_calls else None), 'the header is written once, before the rows', okh, expected='writerow(self.get_header()) then the item loop', found=[u(c.args[0]) for c in rows], stmt='header once')
    loops = [s for s in stmts_in(fe.node.body) if isinstance(s, ast.For)]
    okl = len(loops) == 1 and u(loops[0].iter) == f'{fe.params()[2]}.items' and item_calls and u(item_calls[0].args[0]) == f'self.get_row({u(loops[0].target)})'
    rep.add('E3', fe.site(loops[0] if loops else None), 'one row per result item, in item order', okl, expected='for item in results.items: writer.writerow(self.get_row(item))', found=[u(l)[:80] for l in loops], stmt='row per item')
    gh, gr = ex.methods['get_header'], ex.methods['get_row']
    rep.functions.update({gh.qualname, gr.qualname})
    rh = [s for s in gh.node.body if isinstance(s, ast.Return)]
    rr = [s for s in gr.node.body if isinstance(s, ast.Return)]
    okgh = len(rh) == 1 and isinstance(rh[0].value, ast.ListComp) and u(rh[0].value.generators[0].iter) == 'self.COLUMNS' and u(rh[0].value.elt) == u(rh[0].value.generators[0].target.elts[0])
    okgr = len(rr) == 1 and isinstance(rr[0].value, ast.ListComp) and u(rr[0].value.generators[0].iter) == 'self.COLUMNS' and not rr[0].value.generators[0].ifs \
        and isinstance(rr[0].value.elt, ast.Call) and u(rr[0].value.elt.func) == 'getattr_nested' and [u(a) for a in rr[0].value.elt.args[:2]] == [gr.params()[1], u(rr[0].value.generators[0].target.elts[1])] \
        and is_const(get_arg(rr[0].value.elt, 2, 'pass_none'), True)
    rep.account_returns('E3', gh, rh[:1], 'header')
    rep.account_returns('E3', gr, rr[:1], 'row')
    rep.add('E3', gh.site(), 'header cells are the first components of COLUMNS, in table order', okgh, expected='[name for name, _ in self.COLUMNS]', found=[u(r.value) for r in rh], stmt='get_header')
    rep.add('E3', gr.site(), 'row cells are the second components of COLUMNS resolved on the item, in the same order, absent values as empty cells', okgr, expected='[getattr_nested(item, attrs, pass_none=True) for _, attrs in self.COLUMNS]',
            found=[u(r.value) for r in rr], stmt='get_row')
    fg = m.func(f'{R}.getattr_nested')
    rep.functions.add(fg.qualname)
    gmg = guard_map(fg.node)
    lp = [s for s in fg.node.body if isinstance(s, ast.For)]
    okn = False
    if len(lp) == 1:
        a = u(lp[0].target)
        step = [s for s in lp[0].body if isinstance(s, ast.Assign)]
        nret = [s for s in stmts_in(lp[0].body) if isinstance(s, ast.Return)]
        okn = len(step) == 1 and u(step[0]) == f'obj = getattr(obj, {a})' and len(nret) == 1 and is_none(nret[0].value) and path_atoms(gmg[nret[0]]) == {('true', 'pass_none'), ('is', 'None', 'obj')} \
            and nret[0].lineno < step[0].lineno
    sp = [s for s in stmts_in(fg.node.body) if isinstance(s, ast.Assign) and u(s.value) == "attrs.split('.')"]
    rep.add('E3', fg.site(), 'a dotted path is followed attribute by attribute; None short-circuits to None only when asked', okn and len(sp) == 1 and u(fg.node.body[-1]) == 'return obj', expected="split('.'); for attr: if pass_none and obj is None: return None; obj = getattr(obj, attr)",
            found=[u(s)[:60] for s in fg.node.body], stmt='getattr_nested')
    init = ex.methods['__init__']
    dflt = {u(get_arg(c, 0)): u(get_arg(c, 1)) for c in calls_in(init.node) if callee_attr(c) == 'setdefault'}
    rep.add('E3', init.site(), 'default dialect quotes minimally with LF line endings', dflt.get("'quoting'") == 'csv.QUOTE_MINIMAL' and dflt.get("'lineterminator'") == "'\\n'", expected="quoting=csv.QUOTE_MINIMAL, lineterminator='\\n'", found=dflt,
            stmt='csv dialect')


def registry(ci):
    """{registered class text: method FuncInfo} for `@to_json.register(X)` methods of a class."""
    out = {}
    for name, f in ci.methods.items():
        for d in f.decorators:
            if isinstance(d, ast.Call) and u(d.func) == 'to_json.register' and d.args:
                out[u(d.args[0])] = f
    return out


def todict_fields(f):
    for c in calls_in(f.node):
        if u(c.func) == '_todict' and len(c.args) == 2:
            try:
                return u(c.args[0]), list(ast.literal_eval(c.args[1]))
            except Exception:
                return u(c.args[0]), None
    return None, None


def check_json(ctx):
    rep, m = ctx.rep, ctx.model
    base = m.cls(f'{R}.BaseJSONResultsExporter')
    fe = base.methods['export']
    rep.functions.add(fe.qualname)
    d = [c for c in calls_in(fe.node) if u(c.func) == 'json.dump']
    wvars = [u(i.optional_vars) for s in stmts_in(fe.node.body) if isinstance(s, ast.With) for i in s.items if i.optional_vars is not None and isinstance(i.context_expr, ast.Call)
             and u(i.context_expr.func) == 'maybe_open' and u(i.context_expr.args[0]) == fe.params()[1]]
    okd = len(d) == 1 and len(wvars) == 1 and [u(a) for a in d[0].args] == [fe.params()[2], wvars[0]] and u(get_kw(d[0], 'default')) == 'self.to_json'
    rep.add('E3', fe.site(d[0] if d else None), 'JSON formats are produced by json.dump of the results with the exporter\'s to_json as the default hook (valid JSON by construction)', okd, expected='json.dump(results, f, default=self.to_json, **opts)',
            found=[u(c) for c in d], stmt='json dump')
    bt = base.methods['to_json']
    rb = [s for s in bt.node.body if isinstance(s, ast.Return)]
    rep.add('E3', bt.site(), 'the base conversion is the shared converter', len(rb) == 1 and u(rb[0].value) == f'gjson.to_json({bt.params()[1]})', expected='gjson.to_json(obj)', found=[u(r.value) for r in rb], stmt='base to_json')
    je = m.cls(f'{R}.JSONResultsExporter')
    reg = registry(je)
    rep.floor('E4', 'JSON exporter registrations', len(reg), 6)
    fi = reg.get('QueryResultItem')
    rep.require(fi is not None, 'JSONResultsExporter: no QueryResultItem image')
    rep.functions.add(fi.qualname)
    it = fi.params()[1]
    rr = [s for s in fi.node.body if isinstance(s, ast.Return)]
    kw = {k.arg: u(k.value) for k in rr[0].value.keywords} if rr and isinstance(rr[0].value, ast.Call) and u(rr[0].value.func) == 'dict' else {}
    want = {'query': f'{it}.input', 'predicted_taxon': f'{it}.report_taxon', 'next_taxon': f'{it}.classifier_result.next_taxon', 'closest_genomes': f'{it}.closest_genomes'}
    rep.add('E4', fi.site(), 'JSON item: label source, reported taxon, next taxon and closest genomes of the same item', kw == want, expected=want, found=kw, stmt='json item image')
    fin = reg.get('QueryInput')
    rr = [s for s in fin.node.body if isinstance(s, ast.Return)] if fin else []
    kw = {k.arg: u(k.value) for k in rr[0].value.keywords} if rr and isinstance(rr[0].value, ast.Call) else {}
    ip = fin.params()[1] if fin else 'input'
    rep.add('E4', fin.site() if fin else je.site(), 'JSON query: carries the label (and the file path/format when there is a file)', kw.get('name') == f'{ip}.label' and kw.get('path', '').endswith(f'{ip}.file.path') and kw.get('format', '').endswith(f'{ip}.file.format'),
            expected=f'name={ip}.label', found=kw, stmt='json query image')
    for cname, model in (('Taxon', 'gambit.db.models.Taxon'), ('AnnotatedGenome', 'gambit.db.models.AnnotatedGenome'), ('ReferenceGenomeSet', 'gambit.db.models.ReferenceGenomeSet')):
        f = reg.get(cname)
        rep.require(f is not None, f'JSONResultsExporter: no {cname} image')
        rep.functions.add(f.qualname)
        obj, fields = todict_fields(f)
        bad = [a for a in (fields or []) if attr_type(m, model, a)[0] != 'ok']
        rep.add('E4', f.site(), f'JSON {cname}: every listed field is an attribute of the model and is read from the object itself', fields is not None and not bad and obj == f.params()[1], expected='declared attributes', found=bad or fields,
                stmt=f'json {cname} fields')
    ft = reg['Taxon']
    _, tf = todict_fields(ft)
    rep.add('E4', ft.site(), 'JSON taxon carries name, rank, NCBI id and threshold (the CSV taxon columns)', tf is not None and {'name', 'rank', 'ncbi_id', 'distance_threshold'} <= set(tf), expected='name, rank, ncbi_id, distance_threshold', found=tf, stmt='json taxon columns')
    fr = reg.get('QueryResults')
    body = [u(s) for s in fr.node.body] if fr else []
    dn = u(fr.node.body[-1].value) if fr and isinstance(fr.node.body[-1], ast.Return) else None
    rep.add('E4', fr.site() if fr else je.site(), 'JSON results: the shallow attrs dict of the results (items kept in order), parameters omitted', fr is not None and f'{dn} = asdict({fr.params()[1]}, recurse=False)' in body and f"del {dn}['params']" in body
            and len(body) <= 4, expected="asdict(results, recurse=False); del data['params']", found=body, stmt='json results image')
    # GenomeMatch / ClassifierResult fall to the generic converter: distance + genome are attrs fields
    gmc = m.cls('gambit.classify.GenomeMatch')
    rep.add('E4', gmc.site(), 'closest-genome entries expose genome, distance and matched taxon (attrs fields, generic conversion)', list(gmc.annotations)[:3] == ['genome', 'distance', 'matched_taxon'], expected=['genome', 'distance', 'matched_taxon'],
            found=list(gmc.annotations), stmt='genome match fields')


def check_archive(ctx):
    rep, m = ctx.rep, ctx.model
    wr = m.cls(f'{R}.ResultsArchiveWriter')
    rd = m.cls(f'{R}.ResultsArchiveReader')
    reg = registry(wr)
    fi = rd.methods['_init_converter']
    rep.functions.add(fi.qualname)
    hooks = {}
    for c in calls_in(fi.node):
        if callee_attr(c) == 'register_structure_hook' and len(c.args) == 2:
            hooks[u(c.args[0])] = u(c.args[1])
    rep.floor('E5', 'archive writer registrations', len(reg), 3)
    rep.add('E5', wr.site(), 'classes with a reduced (key-only) image on write == classes with a structure hook on read', set(reg) == set(hooks), expected=sorted(reg), found=sorted(hooks), stmt='registry agreement')
    conv = [s for s in fi.node.body if isinstance(s, ast.Assign) and u(s.targets[0]) == 'self._converter']
    rep.add('E5', fi.site(conv[0] if conv else None), 'the reader starts from a copy of the shared converter (all generic hooks identical on both sides)', len(conv) == 1 and u(conv[0].value) == 'gjson.converter.copy()', expected='gjson.converter.copy()',
            found=[u(c.value) for c in conv], stmt='reader converter')
    for cname, f in sorted(reg.items()):
        rep.functions.add(f.qualname)
        obj, fields = todict_fields(f)
        hook = hooks.get(cname, '')
        hf = rd.methods.get(hook.replace('self.', ''))
        read_keys = set()
        if hf is not None:
            rep.functions.add(hf.qualname)
            for n in ast.walk(hf.node):
                if isinstance(n, ast.Subscript) and u(n.value) == hf.params()[1] and isinstance(n.slice, ast.Constant):
                    read_keys.add(n.slice.value)
        if cname == 'ReferenceGenomeSet':
            rf = rd.methods['results_from_json']
            rep.functions.add(rf.qualname)
            for n in ast.walk(rf.node):
                if isinstance(n, ast.Subscript) and u(n.value) == f"{rf.params()[1]}['genomeset']" and isinstance(n.slice, ast.Constant):
                    read_keys.add(n.slice.value)
        rep.add('E5', f.site(), f'archive {cname}: the key fields written are exactly the fields the reader uses to find the object again', fields is not None and set(fields) == read_keys and obj == f.params()[1], expected=sorted(fields or []),
                found=sorted(read_keys), stmt=f'archive {cname} keys')
    # lookups are confined to the genome set of the results
    for hname, model in (('_structure_genome', 'AnnotatedGenome'), ('_structure_taxon', 'Taxon')):
        hf = rd.methods[hname]
        src = u(hf.node)
        okq = 'self._current_genomeset.id' in src and '.one()' in src and 'genome_set_id' in src and "data['key']" in src
        rep.add('E5', hf.site(), f'{model} is looked up by key within the genome set of the results, exactly one match required', okq, expected="filter(genome_set_id == gset.id, key == data['key']).one()", found=src[:100].replace('\n', ' '), stmt=f'{hname} query')
    rf = rd.methods['results_from_json']
    st = [c for c in calls_in(rf.node) if u(c.func) == 'self._converter.structure']
    rep.add('E5', rf.site(), 'the whole document is structured back into QueryResults', len(st) == 1 and [u(a) for a in st[0].args] == [rf.params()[1], 'QueryResults'], expected='self._converter.structure(data, QueryResults)', found=[u(c) for c in st],
            stmt='structure')
    gq = [s for s in stmts_in(rf.node.body) if isinstance(s, ast.Assign) and u(s.targets[0]) == 'self._current_genomeset' and not is_none(s.value)]
    okg = False
    if len(gq) == 1 and u(gq[0].value).endswith('.one()'):
        fb = [c for c in calls_in(gq[0].value) if callee_attr(c) == 'filter_by']
        if len(fb) == 1:
            kws = {k.arg: k.value for k in fb[0].keywords}

            def src_of(e):
                if isinstance(e, ast.Name):
                    dd = reaching_def(rf.node, e.id, gq[0])
                    e = def_value(dd) if dd not in (None, PARAM, AMBIGUOUS) else None
                return u(e)
            okg = set(kws) == {'key', 'version'} and src_of(kws['key']) == f"{rf.params()[1]}['genomeset']['key']" and src_of(kws['version']) == f"{rf.params()[1]}['genomeset']['version']"
    rep.add('E5', rf.site(gq[0] if gq else None), 'the genome set is found by (key, version), exactly one match required', okg, expected='filter_by(key=..., version=...).one()', found=[u(g.value) for g in gq], stmt='genome set lookup')
    # fields of the result graph not reduced: attrs classes handled by the generic converter on both sides
    for q in ('gambit.query.QueryResults', 'gambit.query.QueryResultItem', 'gambit.query.QueryInput', 'gambit.query.QueryParams', 'gambit.classify.ClassifierResult', 'gambit.classify.GenomeMatch'):
        ci = m.cls(q)
        is_attrs = any(isinstance(d, ast.Call) and u(d.func) == 'attrs' or u(d) == 'attrs' for d in ci.node.decorator_list)
        allattrib = all(isinstance(v, ast.Call) and u(v.func) == 'attrib' for k, v in ci.class_attrs.items() if k in ci.annotations)
        rep.add('E5', ci.site(), f'{ci.name} is an attrs class with every annotated field declared through attrib() (round-trips through the generic converter, including warnings, errors and parameters)', is_attrs and allattrib,
                expected='@attrs + attrib() fields', found=[k for k in ci.annotations if k not in ci.class_attrs], stmt=f'attrs {ci.name}')


def check_scalars(ctx):
    rep, m = ctx.rep, ctx.model
    jm = m.module('gambit.util.json')
    site = (jm.relpath, 1, 'gambit.util.json')
    hooks = {}
    pairs = {}
    for n in ast.walk(jm.tree):
        if isinstance(n, ast.Call) and u(n.func) == 'converter.register_unstructure_hook' and len(n.args) == 2:
            hooks[u(n.args[0])] = (u(n.args[1]), n)
        if isinstance(n, ast.Call) and u(n.func) == 'register_hooks' and len(n.args) >= 3 and n in [s.value for s in jm.tree.body if isinstance(s, ast.Expr)]:
            pairs[u(n.args[0])] = (u(n.args[1]), u(n.args[2]))
    f = hooks.get('np.floating')
    rep.add('E6', (jm.relpath, f[1].lineno if f else 1, 'gambit.util.json'), 'NumPy floats are written with float() - an exact widening of float32, so every distance survives to the last bit', f is not None and f[0] == 'float',
            expected='float', found=f[0] if f else None, stmt='np.floating hook')
    i = hooks.get('np.integer')
    rep.add('E6', (jm.relpath, i[1].lineno if i else 1, 'gambit.util.json'), 'NumPy integers are written with int()', i is not None and i[0] == 'int', expected='int', found=i[0] if i else None, stmt='np.integer hook')
    want = {'datetime': ('datetime.isoformat', 'datetime.fromisoformat'), 'date': ('date.isoformat', 'date.fromisoformat'), 'Path': ('str', 'Path')}
    rep.add('E6', site, 'datetime, date and Path have paired write/read hooks', all(pairs.get(k) == v for k, v in want.items()), expected=want, found=pairs, stmt='paired hooks')
    fr = m.func('gambit.util.json.register_hooks')
    rep.functions.add(fr.qualname)
    src = [u(s) for s in stmts_in(fr.node.body)]
    okr = f'converter.register_unstructure_hook({fr.params()[0]}, {fr.params()[1]})' in src and any('register_structure_hook' in s for s in src)
    rep.add('E6', fr.site(), 'register_hooks installs both directions on the shared converter', okr, expected='unstructure + structure hook', found=src[:4], stmt='register_hooks')
    fd = m.func('gambit.util.json.to_json')
    rr = [s for s in fd.node.body if isinstance(s, ast.Return)]
    rep.add('E6', fd.site(), 'to_json is the shared converter\'s unstructure', len(rr) == 1 and u(rr[0].value) == f'converter.unstructure({fd.params()[0]})', expected='converter.unstructure(obj)', found=[u(r.value) for r in rr], stmt='to_json')
    fx = m.func('gambit.cli.query.get_exporter')
    rep.functions.add(fx.qualname)
    gmx = guard_map(fx.node)
    tbl = {}
    for r in [s for s in stmts_in(fx.node.body) if isinstance(s, ast.Return)]:
        for a in path_atoms(gmx[r]):
            if a[0] == 'eq' and fx.params()[0] in a:
                tbl[(a[1] if a[2] == fx.params()[0] else a[2]).strip("'")] = u(r.value)
    rep.add('E3', fx.site(), 'the command maps each format name to its exporter', tbl == {'csv': 'CSVResultsExporter()', 'json': 'JSONResultsExporter()', 'archive': 'ResultsArchiveWriter()'}, expected='csv/json/archive', found=tbl, stmt='format table')


def check(ctx):
    rep = ctx.rep
    rep.rule('E1', 'every dotted CSV path resolves step by step against the result model tables')
    rep.rule('E2', 'header prefix <-> path root, suffix <-> terminal attribute; header set == documented set')
    rep.rule('E3', 'writing discipline for CSV and JSON; format table')
    rep.rule('E4', 'JSON images of item / query / taxon / genome / results')
    rep.rule('E5', 'archive writer/reader registries and key fields agree; attrs classes round-trip generically')
    rep.rule('E6', 'lossless scalar hooks')
    rep.trusted += ['cattrs structuring of annotated attrs fields', 'csv module quoting / parse-back', 'float(np.float32) is exact; json round-trips a Python float exactly (repr)']
    rep.assumptions += ['Agreement clauses only: cattrs behaviour per field type and CSV parse-back are trusted (DESIGN.md 5/C11).']
    check_csv(ctx)
    check_json(ctx)
    check_archive(ctx)
    check_scalars(ctx)


from ..variants import V  # noqa: E402

_R = 'src/gambit/results.py'
_J = 'src/gambit/util/json.py'
VARIANTS = [
    V('next.rank reports the name', 'B', _R, "('next.rank', 'classifier_result.next_taxon.rank'),", "('next.rank', 'classifier_result.next_taxon.name'),", 'E2'),
    V('closest.description from the primary match', 'B', _R, "('closest.description', 'classifier_result.closest_match.genome.description'),", "('closest.description', 'classifier_result.primary_match.genome.description'),", 'E2'),
    V('path step renamed in COLUMNS only', 'B', _R, "('predicted.name', 'report_taxon.name'),", "('predicted.name', 'reported_taxon.name'),", 'E1'),
    V('Taxon structure hook dropped', 'B', _R, "\t\tself._converter.register_structure_hook(Taxon, self._structure_taxon)\n", "", 'E5'),
    V('float hook rounds', 'B', _J, "converter.register_unstructure_hook(np.floating, float)", "converter.register_unstructure_hook(np.floating, lambda x: round(float(x), 6))", 'E6'),
    V('manual comma join', 'B', _R, "\t\t\t\twriter.writerow(self.get_row(item))", "\t\t\t\tf.write(','.join(map(str, self.get_row(item))) + '\\n')", 'E3'),
    V('predicted.* from the raw predicted taxon', 'B', _R, "('predicted.rank', 'report_taxon.rank'),", "('predicted.rank', 'classifier_result.predicted_taxon.rank'),", 'E2'),
    V('json predicted taxon from classifier', 'B', _R, "\t\t\tpredicted_taxon=item.report_taxon,", "\t\t\tpredicted_taxon=item.classifier_result.predicted_taxon,", 'E4'),
    V('archive taxon written by name, read by key', 'B', _R, "\t\treturn _todict(taxon, ['key'])\n\n\t@to_json.register(AnnotatedGenome)\n\tdef _genome_to_json(self, genome: AnnotatedGenome):\n\t\treturn _todict(genome, ['key'])",
      "\t\treturn _todict(taxon, ['name'])\n\n\t@to_json.register(AnnotatedGenome)\n\tdef _genome_to_json(self, genome: AnnotatedGenome):\n\t\treturn _todict(genome, ['key'])", 'E5'),
    V('genome set version not written', 'B', _R, "return _todict(gset, ['key', 'version'])", "return _todict(gset, ['key'])", 'E5'),
    V('column dropped', 'B', _R, "\t\t('next.threshold', 'classifier_result.next_taxon.distance_threshold'),\n", "", 'E'),
    V('pass_none off (absent taxon crashes / not empty)', 'B', _R, "getattr_nested(item, attrs, pass_none=True)", "getattr_nested(item, attrs)", 'E3'),
    V('header and row built from different orders', 'B', _R, "return [name for name, _ in self.COLUMNS]", "return sorted(name for name, _ in self.COLUMNS)", 'E3'),
    V('json query label from the file path', 'B', _R, "\t\t\tname=input.label,", "\t\t\tname=str(input.file),", 'E4'),
    V('E: model attribute reordering irrelevant', 'E', _R, "\t\t('query', 'input.label'),\n", "\t\t('query', 'input.label'),  # label\n"),
]
