"""C11 - every export format is a faithful image of the query results (agreement clauses).

The rules decide on computed images, not on statement shapes:
  row stream   what CSVResultsExporter.export hands to its csv.writer, in order: ('one', row) / ('each', row(x), iterable) segments, followed through
               writerow / writerows, loops, comprehensions, map(), list concatenation, chain() and (generator) helper methods
  list image   the cells get_header / get_row return (comprehension or accumulator loop): element expression, loop target, iterable
  dict image   key -> value of the dict a converter returns (dict() / literal / _todict-like helpers evaluated through their definition / spreads /
               item stores / update / del / pop / `if` blocks -> conditional values); field tables may be class- or module-level constants
  evaluation   getattr_nested is run by a small interpreter on a finite domain of attribute chains and compared with its specification
  stores       the value of self._current_genomeset while the document is structured: a direct assignment or the entry part of a @contextmanager method
  effects      registrations executed when gambit.util.json is imported (statements, loops over literal tables, `f(*row)`, module-level calls of local
               functions) and in ResultsArchiveReader.__init__ / _init_converter
  registry     `@to_json.register(C)` or the bare form taking C from the first annotated parameter
  domains      the bounded evaluations (getattr_nested: chains up to the longest exported path + 1; CSVResultsExporter.__init__: a family of option sets) carry
               a coverage side-condition: a statement never executed / a test with a single outcome on which code hangs => Undecided, never a pass.
               The path argument of a row cell is evaluated on every row of the literal COLUMNS table (the complete domain).
  queries      filter conditions must be equalities between a model column and the value read from the document / the current genome set
A construct outside these vocabularies raises Undecided naming it; a computed image that differs from the required one is a violation.

E1 CSV column paths resolve step by step against the result model (attrs classes, SQLAlchemy columns / relationships / hybrids)
E2 header <-> path agreement (prefix = root, suffix = terminal attribute); header set == documented set (docs/source/cli.rst)
E3 writing discipline: csv.writer, header once, one row per item from COLUMNS in order with pass_none; JSON via json.dump(default=to_json)
E4 JSON item image   E5 archive writer/reader registries agree; key fields written == read
E6 lossless scalar hooks (np.floating -> float, np.integer -> int; datetime / Path paired)
"""
import ast
import copy
import os
import re

from ..astutil import u, atoms, names_in, guard_map, path_atoms, stmts_in, calls_in, callee_attr, def_value, get_arg, get_kw, is_none, is_const, block_path
from ..report import Undecided

R = 'gambit.results'
ROOT_OF_PREFIX = {'predicted': 'report_taxon', 'closest': 'classifier_result.closest_match', 'next': 'classifier_result.next_taxon', 'query': 'input.label'}
SUFFIX_SYNONYM = {'threshold': 'distance_threshold'}
DOC_TYPOS = {'closest.decription': 'closest.description'}   # the documentation's own misspelling, one named exception


def ann_class(m, module, ann):
    """Class a type annotation refers to: Name / 'Name' / Optional[X] / list[X] -> canonical class name or None."""
    if ann is None:
        return None
    if isinstance(ann, ast.Constant) and isinstance(ann.value, str):
        try:
            ann = ast.parse(ann.value, mode='eval').body
        except SyntaxError:
            return None
    if isinstance(ann, ast.Subscript):
        base = u(ann.value)
        if base in ('Optional', 'typing.Optional'):
            return ann_class(m, module, ann.slice)
        return None
    r = m.resolve(module, ann)
    return r if r in m.classes else None


def attr_type(m, cls_name, attr):
    """('ok', next class | None) when `attr` is a declared attribute of the class (walking the MRO); ('missing', None) otherwise."""
    for cn in m.mro(cls_name):
        ci = m.classes.get(cn)
        if ci is None:
            continue
        if attr in ci.annotations:
            return 'ok', ann_class(m, ci.module, ci.annotations[attr])
        if attr in ci.class_attrs:
            v = ci.class_attrs[attr]
            if isinstance(v, ast.Call) and u(v.func) == 'relationship' and v.args and isinstance(v.args[0], ast.Constant):
                tgt = f'{ci.module.name}.{v.args[0].value}'
                return 'ok', tgt if tgt in m.classes else None
            return 'ok', None
        if attr in ci.methods and any(u(d) in ('property', 'hybrid_property') for d in ci.methods[attr].decorators):
            return 'ok', None
        # relationship backrefs declared on the other side are not needed by the export paths
    return 'missing', None


def resolve_path(m, root_cls, path):
    cur = root_cls
    steps = path.split('.')
    for i, a in enumerate(steps):
        if cur is None:
            return False, f'step {a!r}: type of the previous step is not a known class'
        st, nxt = attr_type(m, cur, a)
        if st != 'ok':
            return False, f'{cur.rsplit(".", 1)[1]} has no attribute {a!r}'
        cur = nxt
    return True, 'ok'


# ====================================================================== symbolic images
# The converter / exporter rules decide on the *image* of a function: what value flows to which key (dict images), which rows
# are handed to the csv writer in which order (row streams), which cells make up a row (list images).  The images are computed
# by a small symbolic evaluator over the canonicalised AST: locals are substituted by their definitions, literal tables (also
# class-level / module-level constants) are unrolled, small package helpers are evaluated through their own definition, a
# one-armed `if` that fills a pre-built dict becomes a conditional value.  A construct outside this vocabulary raises
# Undecided naming the construct; a computed image that differs from the required one is a violation.

FALLOFF = object()      # control falls off the end of the evaluated statements (no value returned)
HOLE = '__x__'          # the element variable of an 'each' segment / list image
_NEG2POS = {'isnot': 'is', 'ne': 'eq', 'notin': 'in', 'false': 'true'}


class DictV:
    """A dict under construction: ordered (constant key, value) pairs."""

    def __init__(self, items=()):
        self.items = [list(kv) for kv in items]

    def set(self, k, v):
        for kv in self.items:
            if kv[0] == k:
                kv[1] = v
                return
        self.items.append([k, v])

    def delete(self, k):
        n = len(self.items)
        self.items = [kv for kv in self.items if kv[0] != k]
        return len(self.items) != n

    def keys(self):
        return [k for k, _ in self.items]

    def get(self, k, default=None):
        for kk, v in self.items:
            if kk == k:
                return v
        return default

    def copy(self):
        return DictV([(k, _copyv(v)) for k, v in self.items])


class SeqV:
    """A literal list / tuple."""

    def __init__(self, elts):
        self.elts = list(elts)


class Minus:
    """An opaque mapping with some constant keys removed (`del d['k']`, `d.pop('k')`)."""

    def __init__(self, base, removed=()):
        self.base = base
        self.removed = tuple(removed)


class Cond:
    """A value that depends on a (positive-polarity) test."""

    def __init__(self, test_atoms, a, b):
        self.atoms = tuple(sorted(test_atoms))
        self.a = a
        self.b = b


def _copyv(v):
    return v.copy() if isinstance(v, DictV) else v


def canon(v):
    """Comparable normal form of a value."""
    if v is FALLOFF:
        return 'None'
    if isinstance(v, ast.AST):
        return u(v)
    if isinstance(v, DictV):
        return ('dict', tuple((k, canon(x)) for k, x in v.items))
    if isinstance(v, SeqV):
        return ('seq', tuple(canon(x) for x in v.elts))
    if isinstance(v, Minus):
        return ('minus', u(v.base), tuple(sorted(v.removed)))
    if isinstance(v, Cond):
        return ('if', v.atoms, canon(v.a), canon(v.b))
    raise Undecided(f'symbolic value {v!r} has no normal form')


def norm_test(t):
    """(atoms of the positive-polarity form of test t, arms swapped?)"""
    swap = False
    a = atoms(t, True)
    if a is None:
        a2 = atoms(t, False)
        if a2 is not None:
            a, swap = a2, True
        else:
            a = {('true', u(t))}
    if len(a) == 1:
        (at,) = a
        if at[0] in _NEG2POS:
            a = {(_NEG2POS[at[0]],) + tuple(at[1:])}
            swap = not swap
    return a, swap


def mkcond(t, a, b):
    if a is FALLOFF and b is FALLOFF:
        return FALLOFF
    if canon(a) == canon(b):
        return a
    if isinstance(a, DictV) and isinstance(b, DictV) and a.keys() == b.keys():
        return DictV([(k, mkcond(t, a.get(k), b.get(k))) for k in a.keys()])
    at, swap = norm_test(t)
    if swap:
        a, b = b, a
    return Cond(at, a, b)


def _bound_names(node):
    """Names bound by a comprehension / lambda node itself."""
    out = set()
    if isinstance(node, ast.Lambda):
        a = node.args
        out |= {x.arg for x in a.posonlyargs + a.args + a.kwonlyargs}
        if a.vararg:
            out.add(a.vararg.arg)
        if a.kwarg:
            out.add(a.kwarg.arg)
    else:
        for g in node.generators:
            out |= {n.id for n in ast.walk(g.target) if isinstance(n, ast.Name)}
    return out


class _Subst(ast.NodeTransformer):
    """Replace local names by their (expression) values; `getattr(o, 'name')` becomes `o.name`."""

    def __init__(self, env, where):
        self.env = env
        self.where = where

    def visit_Name(self, node):
        if isinstance(node.ctx, ast.Load) and node.id in self.env:
            v = self.env[node.id]
            if not isinstance(v, ast.AST):
                raise Undecided(f'{self.where}: local {node.id!r} holds a structured value and is used inside an expression the rule cannot evaluate')
            return copy.deepcopy(v)
        return node

    def _scoped(self, node):
        bound = _bound_names(node)
        if bound & set(self.env):
            saved = self.env
            self.env = {k: v for k, v in saved.items() if k not in bound}
            try:
                return self.generic_visit(node)
            finally:
                self.env = saved
        return self.generic_visit(node)

    visit_ListComp = visit_SetComp = visit_DictComp = visit_GeneratorExp = visit_Lambda = _scoped

    def visit_Call(self, node):
        node = self.generic_visit(node)
        if isinstance(node.func, ast.Name) and node.func.id == 'getattr' and len(node.args) == 2 and not node.keywords \
                and isinstance(node.args[1], ast.Constant) and isinstance(node.args[1].value, str) and node.args[1].value.isidentifier():
            return ast.Attribute(value=node.args[0], attr=node.args[1].value, ctx=ast.Load())
        return node


def subst(e, env, where=''):
    return ast.fix_missing_locations(_Subst(dict(env), where).visit(copy.deepcopy(e)))


def _stores_self_attr(ci, attr):
    for f in ci.methods.values():
        for n in ast.walk(f.node):
            if isinstance(n, ast.Attribute) and isinstance(n.ctx, (ast.Store, ast.Del)) and n.attr == attr and isinstance(n.value, ast.Name) and n.value.id in ('self', 'cls'):
                return True
    return False


def _literal_table(node):
    """A literal list / tuple of constants (possibly nested) -> True."""
    try:
        v = ast.literal_eval(node)
    except Exception:
        return False
    return isinstance(v, (list, tuple))


class Sym:
    """Symbolic evaluation of one function of the analysed package (straight-line code, `if`, loops over literal tables)."""

    MAX_DEPTH = 3

    def __init__(self, m, fi, depth=0, effects=None):
        self.m = m
        self.fi = fi
        self.depth = depth
        self.effects = effects      # list collecting ('call', Call) / ('store', target text, value) or None: side effects not allowed
        self.where = fi.qualname.rsplit('.', 1)[-1]

    # ------------------------------------------------------------ constants
    def const_table(self, e):
        """Class-level (`self.X`, `cls.X`, `Class.X`) or module-level constant holding a literal table -> its node."""
        if isinstance(e, ast.Attribute) and isinstance(e.value, ast.Name):
            cq = None
            if e.value.id in ('self', 'cls') and self.fi.cls is not None:
                cq = self.fi.cls.qualname
            else:
                r = self.m.resolve(self.fi.module, e.value)
                if r in self.m.classes:
                    cq = r
            if cq is not None:
                for cn in self.m.mro(cq):
                    ci = self.m.classes.get(cn)
                    if ci is not None and e.attr in ci.class_attrs:
                        v = ci.class_attrs[e.attr]
                        if _literal_table(v) and not _stores_self_attr(self.m.classes[cq], e.attr):
                            return v
                        return None
        if isinstance(e, ast.Name) and e.id in self.fi.module.assigns and e.id not in self.fi.params():
            v = self.fi.module.assigns[e.id]
            if _literal_table(v):
                return v
        return None

    # ------------------------------------------------------------ expressions
    def sym(self, e, env):
        return subst(e, {k: v for k, v in env.items()}, self.where)

    def ev(self, e, env):
        if isinstance(e, ast.Name):
            if e.id in env:
                return env[e.id]
            t = self.const_table(e)
            return self.ev(t, {}) if t is not None else e
        if isinstance(e, ast.Constant):
            return e
        if isinstance(e, ast.Attribute):
            t = self.const_table(e)
            if t is not None:
                return self.ev(t, {})
            return self.sym(e, env)
        if isinstance(e, (ast.List, ast.Tuple)) and not any(isinstance(x, ast.Starred) for x in e.elts):
            return SeqV([self.ev(x, env) for x in e.elts])
        if isinstance(e, ast.Dict):
            d = DictV()
            for k, v in zip(e.keys, e.values):
                if k is None:
                    self._spread(d, self.ev(v, env), e)
                else:
                    kk = self.ev(k, env)
                    if not isinstance(kk, ast.Constant):
                        raise Undecided(f'{self.where}: dict key {u(k)} is not a constant')
                    d.set(kk.value, self.ev(v, env))
            return d
        if isinstance(e, ast.DictComp):
            return self._dictcomp(e, env)
        if isinstance(e, ast.IfExp):
            return mkcond(self.sym(e.test, env), self.ev(e.body, env), self.ev(e.orelse, env))
        if isinstance(e, ast.Call):
            return self._call(e, env)
        return self.sym(e, env)

    def _spread(self, d, v, node):
        if not isinstance(v, DictV):
            raise Undecided(f'{self.where}: mapping spread into {u(node)[:60]} is not a dict the rule can evaluate')
        for k, x in v.items:
            d.set(k, x)

    def _dictcomp(self, e, env):
        if len(e.generators) != 1 or e.generators[0].ifs or e.generators[0].is_async:
            raise Undecided(f'{self.where}: dict comprehension {u(e)[:60]} has a filter / several loops')
        g = e.generators[0]
        it = self.ev(g.iter, env)
        if not isinstance(it, SeqV):
            raise Undecided(f'{self.where}: dict comprehension {u(e)[:60]} iterates over something that is not a literal table')
        d = DictV()
        for x in it.elts:
            env2 = dict(env)
            self._bind(g.target, x, env2)
            k = self.ev(e.key, env2)
            if not isinstance(k, ast.Constant):
                raise Undecided(f'{self.where}: dict comprehension key {u(e.key)} is not a constant')
            d.set(k.value, self.ev(e.value, env2))
        return d

    def _bind(self, target, value, env):
        if isinstance(target, ast.Name):
            env[target.id] = value
            return
        if isinstance(target, (ast.Tuple, ast.List)) and isinstance(value, SeqV) and len(value.elts) == len(target.elts) \
                and not any(isinstance(t, ast.Starred) for t in target.elts):
            for t, x in zip(target.elts, value.elts):
                self._bind(t, x, env)
            return
        raise Undecided(f'{self.where}: cannot bind target {u(target)}')

    def _call(self, e, env):
        f = e.func
        fname = f.id if isinstance(f, ast.Name) else None
        if fname == 'dict' and fname not in env:
            d = DictV()
            if len(e.args) > 1 or any(isinstance(a, ast.Starred) for a in e.args):
                raise Undecided(f'{self.where}: dict() call {u(e)[:60]} not evaluable')
            if e.args:
                v = self.ev(e.args[0], env)
                if isinstance(v, SeqV) and all(isinstance(p, SeqV) and len(p.elts) == 2 and isinstance(p.elts[0], ast.Constant) for p in v.elts):
                    for p in v.elts:
                        d.set(p.elts[0].value, p.elts[1])
                else:
                    self._spread(d, _copyv(v), e)
            for k in e.keywords:
                if k.arg is None:
                    self._spread(d, _copyv(self.ev(k.value, env)), e)
                else:
                    d.set(k.arg, self.ev(k.value, env))
            return d
        if fname in ('list', 'tuple') and fname not in env and len(e.args) == 1 and not e.keywords:
            v = self.ev(e.args[0], env)
            if isinstance(v, SeqV):
                return SeqV(v.elts)
            return self.sym(e, env)
        if fname == 'getattr' and fname not in env and len(e.args) == 2 and not e.keywords:
            n = self.ev(e.args[1], env)
            o = self.ev(e.args[0], env)
            if isinstance(n, ast.Constant) and isinstance(n.value, str) and n.value.isidentifier() and isinstance(o, ast.AST):
                return ast.Attribute(value=copy.deepcopy(o), attr=n.value, ctx=ast.Load())
            return self.sym(e, env)
        # attr.asdict(inst, filter=...): fields for which the filter is false are left out (trusted: attrs' filter contract)
        if get_kw(e, 'filter') is not None and (fname is None or fname not in env) and self.m.resolve(self.fi.module, f) in ('attr.asdict', 'attrs.asdict'):
            return self._asdict_filter(e, env)
        # a small helper of the package: evaluate it through its own definition
        if self.depth < self.MAX_DEPTH and fname is not None and fname not in env:
            r = self.m.resolve(self.fi.module, f)
            tgt = self.m.functions.get(r)
            if tgt is not None and tgt.cls is None and not tgt.decorators and tgt.module.kind == 'py' \
                    and not any(isinstance(n, (ast.Yield, ast.YieldFrom)) for n in ast.walk(tgt.node)):
                try:
                    return self._inline(tgt, e, env)
                except Undecided:
                    pass
        return self.sym(e, env)

    def _asdict_filter(self, e, env):
        flt = get_kw(e, 'filter')
        rest = copy.deepcopy(e)
        rest.keywords = [k for k in rest.keywords if k.arg != 'filter']
        base = self.sym(rest, env)
        removed = None
        if isinstance(flt, ast.Lambda) and not flt.args.vararg and not flt.args.kwarg and not flt.args.kwonlyargs and len(flt.args.posonlyargs + flt.args.args) == 2:
            fld = (flt.args.posonlyargs + flt.args.args)[0].arg
            b = flt.body
            if isinstance(b, ast.Compare) and len(b.ops) == 1:
                sides = [b.left, b.comparators[0]]
                name_side = [x for x in sides if u(x) == f'{fld}.name']
                other = [x for x in sides if u(x) != f'{fld}.name']
                if len(name_side) == 1 and len(other) == 1:
                    try:
                        val = ast.literal_eval(other[0])
                    except Exception:
                        val = None
                    if isinstance(b.ops[0], ast.NotEq) and isinstance(val, str):
                        removed = (val,)
                    elif isinstance(b.ops[0], ast.NotIn) and name_side[0] is b.left and isinstance(val, (tuple, list, set, frozenset)) and all(isinstance(x, str) for x in val):
                        removed = tuple(val)
                    elif isinstance(b.ops[0], (ast.Eq, ast.In)) and name_side[0] is sides[0] or isinstance(b.ops[0], ast.Eq):
                        # keeps only the named fields: a located deviation from "everything but ..."
                        return ast.parse(f'__only__({u(base)}, {u(other[0])})', mode='eval').body
        if removed is None:
            raise Undecided(f'{self.where}: asdict() filter {u(flt)[:80]} is not a field-name exclusion the rule can evaluate')
        return Minus(base, removed)

    def _inline(self, tgt, call, env):
        a = tgt.node.args
        if a.vararg or a.kwarg or a.posonlyargs or a.kwonlyargs or any(isinstance(x, ast.Starred) for x in call.args) or any(k.arg is None for k in call.keywords):
            raise Undecided('helper signature')
        params = [x.arg for x in a.args]
        if len(call.args) > len(params):
            raise Undecided('helper arity')
        new = {}
        for p, x in zip(params, call.args):
            new[p] = self.ev(x, env)
        for k in call.keywords:
            if k.arg not in params or k.arg in new:
                raise Undecided('helper keyword')
            new[k.arg] = self.ev(k.value, env)
        defaults = dict(zip(params[len(params) - len(a.defaults):], a.defaults))
        for p in params:
            if p not in new:
                if p not in defaults:
                    raise Undecided('helper missing argument')
                new[p] = defaults[p]
        sub = Sym(self.m, tgt, self.depth + 1, None)
        r = sub.run(tgt.node.body, new)
        if r is FALLOFF:
            return ast.Constant(value=None)
        return r

    # ------------------------------------------------------------ statements
    def effect(self, kind, *payload, stmt=None):
        if self.effects is None:
            raise Undecided(f'{self.where}: statement with a side effect the rule cannot evaluate: {u(stmt)[:80]}')
        self.effects.append((kind,) + payload)

    def run(self, stmts, env):
        stmts = list(stmts)
        for i, s in enumerate(stmts):
            rest = stmts[i + 1:]
            if isinstance(s, ast.Pass) or (isinstance(s, ast.Expr) and isinstance(s.value, ast.Constant)):
                continue
            if isinstance(s, (ast.Assign, ast.AnnAssign)):
                if isinstance(s, ast.AnnAssign):
                    if s.value is None:
                        continue
                    targets = [s.target]
                else:
                    targets = s.targets
                v = self.ev(s.value, env)
                for t in targets:
                    self._store(t, v, env, s)
                continue
            if isinstance(s, ast.Delete):
                for t in s.targets:
                    if isinstance(t, ast.Name):
                        env.pop(t.id, None)     # `del local`: the name is simply gone
                    else:
                        self._remove(t, env, s)
                continue
            if isinstance(s, ast.If):
                t = self.sym(s.test, env)
                if self.effects is not None and any((isinstance(x, ast.Expr) and isinstance(x.value, ast.Call)) or (isinstance(x, ast.Assign) and any(isinstance(t, ast.Attribute) for t in x.targets))
                                                    for x in stmts_in(s.body + s.orelse)):
                    raise Undecided(f'{self.where}: conditional side effect under `if {u(s.test)[:50]}`')
                r1 = self.run(s.body + rest, {k: _copyv(v) for k, v in env.items()})
                r2 = self.run(s.orelse + rest, {k: _copyv(v) for k, v in env.items()})
                return mkcond(t, r1, r2)
            if isinstance(s, ast.For) and not s.orelse:
                it = self.ev(s.iter, env)
                if not isinstance(it, SeqV):
                    raise Undecided(f'{self.where}: loop over {u(s.iter)[:50]} which is not a literal table')
                if any(isinstance(x, (ast.Break, ast.Continue, ast.Return)) for x in stmts_in(s.body)):
                    raise Undecided(f'{self.where}: loop over {u(s.iter)[:50]} with break / continue / return')
                for x in it.elts:
                    self._bind(s.target, x, env)
                    self.run(s.body, env)
                continue
            if isinstance(s, ast.Return):
                return ast.Constant(value=None) if s.value is None else self.ev(s.value, env)
            if isinstance(s, ast.Expr) and isinstance(s.value, ast.Call):
                self._call_stmt(s, env)
                continue
            raise Undecided(f'{self.where}: statement the rule cannot evaluate: {u(s)[:80]}')
        return FALLOFF

    def _store(self, t, v, env, stmt):
        if isinstance(t, ast.Name):
            env[t.id] = v
        elif isinstance(t, (ast.Tuple, ast.List)):
            self._bind(t, v, env)
        elif isinstance(t, ast.Subscript) and isinstance(t.value, ast.Name) and isinstance(env.get(t.value.id), DictV):
            k = self.ev(t.slice, env)
            if not isinstance(k, ast.Constant):
                raise Undecided(f'{self.where}: store under a key that is not constant: {u(stmt)[:80]}')
            env[t.value.id].set(k.value, v)
        elif isinstance(t, ast.Attribute):
            self.effect('store', u(self.sym(t, env)), v, stmt=stmt)
        else:
            raise Undecided(f'{self.where}: store the rule cannot evaluate: {u(stmt)[:80]}')

    def _remove(self, t, env, stmt, key=None):
        if key is None:
            if not (isinstance(t, ast.Subscript) and isinstance(t.value, ast.Name)):
                raise Undecided(f'{self.where}: del the rule cannot evaluate: {u(stmt)[:80]}')
            k = self.ev(t.slice, env)
            name = t.value.id
        else:
            k, name = key, t
        cur = env.get(name)
        if not isinstance(k, ast.Constant) or cur is None:
            raise Undecided(f'{self.where}: removal the rule cannot evaluate: {u(stmt)[:80]}')
        if isinstance(cur, DictV):
            cur.delete(k.value)
        elif isinstance(cur, Minus):
            env[name] = Minus(cur.base, cur.removed + (k.value,))
        elif isinstance(cur, ast.AST):
            env[name] = Minus(cur, (k.value,))
        else:
            raise Undecided(f'{self.where}: removal from a value that is not a mapping: {u(stmt)[:80]}')

    def _call_stmt(self, s, env):
        c = s.value
        f = c.func
        if isinstance(f, ast.Attribute) and isinstance(f.value, ast.Name) and f.value.id in env and not isinstance(env[f.value.id], SeqV):
            name = f.value.id
            cur = env[name]
            if f.attr == 'pop' and 1 <= len(c.args) <= 2 and not c.keywords:
                self._remove(name, env, s, key=self.ev(c.args[0], env))
                return
            if f.attr == 'update' and isinstance(cur, DictV) and len(c.args) <= 1:
                if c.args:
                    self._spread(cur, _copyv(self.ev(c.args[0], env)), c)
                for k in c.keywords:
                    if k.arg is None:
                        self._spread(cur, _copyv(self.ev(k.value, env)), c)
                    else:
                        cur.set(k.arg, self.ev(k.value, env))
                return
            if isinstance(cur, (DictV, Minus)):
                raise Undecided(f'{self.where}: mutation of the result the rule cannot evaluate: {u(s)[:80]}')
        self.effect('call', self.sym(self._expand_stars(c, env), env), stmt=s)

    def _expand_stars(self, c, env):
        """`f(*row)` where row is a row of a literal table: the row's elements as positional arguments."""
        if not any(isinstance(a, ast.Starred) for a in c.args):
            return c
        args = []
        for a in c.args:
            if isinstance(a, ast.Starred):
                v = self.ev(a.value, env)
                if not (isinstance(v, SeqV) and all(isinstance(x, ast.AST) for x in v.elts)):
                    raise Undecided(f'{self.where}: star argument {u(a)[:40]} is not a row of a literal table')
                args += [copy.deepcopy(x) for x in v.elts]
            else:
                args.append(a)
        new = ast.Call(func=c.func, args=args, keywords=c.keywords)
        return ast.copy_location(new, c)


def module_effects(m, mod, relevant):
    """Calls executed when a module is imported, in order, as the rules need them: statements at module level, loops over literal
    tables unrolled, rows spread with `*row` expanded.  `relevant(call)` says which calls matter: a relevant call under a
    construct the evaluator cannot follow (if / try / with / while at module level) is Undecided."""
    from ..model import FuncInfo
    top = ast.FunctionDef(name='<module>', args=ast.arguments(posonlyargs=[], args=[], kwonlyargs=[], kw_defaults=[], defaults=[]), body=[ast.Pass()], decorator_list=[], lineno=1)
    sym = Sym(m, FuncInfo(f'{mod.name}.<module>', top, mod), 0, [])
    env = {}
    for s in mod.tree.body:
        if isinstance(s, (ast.Import, ast.ImportFrom, ast.FunctionDef, ast.AsyncFunctionDef, ast.ClassDef, ast.Pass)) or (isinstance(s, ast.Expr) and isinstance(s.value, ast.Constant)):
            continue
        if isinstance(s, (ast.Assign, ast.AnnAssign)):
            tg = s.targets if isinstance(s, ast.Assign) else [s.target]
            val = s.value
            if len(tg) == 1 and isinstance(tg[0], ast.Name) and val is not None and _literal_rows(val):
                sym.run([s], env)       # a literal table kept in a module-level name
            else:
                for t in tg:
                    for n in ast.walk(t):
                        if isinstance(n, ast.Name):
                            env.pop(n.id, None)     # any other global stays a free name
            continue
        if isinstance(s, (ast.For, ast.Delete)) or (isinstance(s, ast.Expr) and isinstance(s.value, ast.Call)):
            if isinstance(s, ast.For) and not any(relevant(c) for c in calls_in(s)):
                continue
            if isinstance(s, ast.Expr) and not relevant(s.value):
                # a module-level call of a function of this module that performs relevant calls: evaluate it through its definition
                tgt = m.functions.get(m.resolve(mod, s.value.func))
                if tgt is not None and tgt.module is mod and tgt.cls is None and any(relevant(c) for c in calls_in(tgt.node)):
                    if tgt.decorators:
                        raise Undecided(f'{mod.relpath}: {u(s.value)[:60]} performs the registrations inside a decorated function')
                    binding = bind_call(tgt, s.value, {}, f'{mod.relpath} module level', keep_identity=True)
                    sub = Sym(m, tgt, 1, sym.effects)
                    sub.run(tgt.node.body, dict(binding))
                    continue
            sym.run([s], env)
            continue
        hidden = [c for c in calls_in(s) if relevant(c)]
        if hidden:
            raise Undecided(f'{mod.relpath}: {u(hidden[0])[:60]} is executed under a module-level `{type(s).__name__.lower()}` the rule cannot follow')
    return [e[1] for e in sym.effects if e[0] == 'call']


def _literal_rows(node):
    """A list / tuple display whose elements are tuples / lists (a table of rows), whatever the cells are."""
    return isinstance(node, (ast.List, ast.Tuple)) and bool(node.elts) and all(isinstance(x, (ast.Tuple, ast.List)) for x in node.elts)


def image(m, fi, effects=None):
    """Symbolic value returned by a function (parameters stay free names)."""
    return Sym(m, fi, 0, effects).run(fi.node.body, {})


def as_dict(v):
    """canon DictV -> {key: canon value} or None."""
    if isinstance(v, DictV):
        return {k: canon(x) for k, x in v.items}
    return None


def dict_image(rep, m, fi, what):
    v = image(m, fi)
    rep.require(isinstance(v, DictV), f'{what}: the value returned by {fi.qualname} is not a dict the rule can evaluate key by key ({str(canon(v))[:80]})')
    return v


def attr_chain(text, root):
    """'root.a.b' -> 'a.b'; None when the text is not a pure attribute chain on `root`."""
    if isinstance(text, str) and text.startswith(root + '.') and re.fullmatch(r'[A-Za-z_]\w*(\.[A-Za-z_]\w*)*', text):
        return text[len(root) + 1:]
    return None


# ====================================================================== list images (header / row)

def list_image(fi):
    """The list a function returns, as (element expr, loop target, iterable expr, filters, order-changing wrapper, analysed returns).
    Recognised: a list comprehension / generator expression (optionally inside list() / tuple()), or an accumulator that is
    created empty, appended to once per iteration of one loop and returned."""
    where = fi.qualname.rsplit('.', 1)[-1]
    body = [s for s in fi.node.body if not (isinstance(s, ast.Expr) and isinstance(s.value, ast.Constant))]
    rets = [s for s in body if isinstance(s, ast.Return)]
    if len(rets) != 1 or body[-1] is not rets[0] or rets[0].value is None:
        raise Undecided(f'{where}: no single final return statement')
    ret = rets[0]
    env = {}
    loop = None
    for s in body[:-1]:
        if isinstance(s, ast.Assign) and len(s.targets) == 1 and isinstance(s.targets[0], ast.Name):
            env[s.targets[0].id] = subst(s.value, env, where)
        elif isinstance(s, ast.AnnAssign) and isinstance(s.target, ast.Name) and s.value is not None:
            env[s.target.id] = subst(s.value, env, where)
        elif isinstance(s, ast.For) and loop is None and not s.orelse:
            loop = s
        elif isinstance(s, ast.If) and all(isinstance(x, (ast.Return, ast.Raise)) for x in s.body + s.orelse):
            continue    # shortcut returns are reported by account_returns
        else:
            raise Undecided(f'{where}: statement the rule cannot evaluate: {u(s)[:80]}')
    e = subst(ret.value, env, where) if loop is None else ret.value
    wrapper = None
    while loop is None and isinstance(e, ast.Call) and isinstance(e.func, ast.Name) and len(e.args) == 1 and not e.keywords and e.func.id in ('list', 'tuple', 'sorted', 'reversed', 'set', 'frozenset'):
        if e.func.id not in ('list', 'tuple'):
            wrapper = e.func.id
        e = e.args[0]
    if loop is None:
        if isinstance(e, (ast.ListComp, ast.GeneratorExp)) and len(e.generators) == 1 and not e.generators[0].is_async:
            g = e.generators[0]
            return dict(elt=e.elt, target=g.target, iter=g.iter, ifs=list(g.ifs), wrapper=wrapper, returns=[ret])
        raise Undecided(f'{where}: returned value {u(e)[:80]} is not a comprehension / accumulated list the rule can evaluate')
    # accumulator loop
    if not isinstance(ret.value, ast.Name):
        raise Undecided(f'{where}: a loop precedes the return but the returned value {u(ret.value)[:60]} is not its accumulator')
    acc = ret.value.id
    init = env.get(acc)
    if not ((isinstance(init, ast.List) and not init.elts) or (isinstance(init, ast.Call) and u(init) == 'list()')):
        raise Undecided(f'{where}: accumulator {acc!r} does not start as an empty list')
    lenv = {k: v for k, v in env.items() if k != acc}
    elt = None
    for s in loop.body:
        if isinstance(s, ast.Assign) and len(s.targets) == 1 and isinstance(s.targets[0], ast.Name) and s.targets[0].id != acc:
            lenv[s.targets[0].id] = subst(s.value, lenv, where)
        elif isinstance(s, ast.Expr) and isinstance(s.value, ast.Call) and isinstance(s.value.func, ast.Attribute) and u(s.value.func.value) == acc \
                and s.value.func.attr == 'append' and len(s.value.args) == 1 and elt is None:
            elt = subst(s.value.args[0], lenv, where)
        else:
            raise Undecided(f'{where}: loop statement the rule cannot evaluate: {u(s)[:80]}')
    if elt is None:
        raise Undecided(f'{where}: the loop never appends to {acc!r}')
    return dict(elt=elt, target=loop.target, iter=subst(loop.iter, lenv, where), ifs=[], wrapper=None, returns=[ret])


def component(img, k):
    """Texts that denote component k of the loop element."""
    t = img['target']
    out = set()
    if isinstance(t, (ast.Tuple, ast.List)) and k < len(t.elts) and isinstance(t.elts[k], ast.Name):
        out.add(t.elts[k].id)
    if isinstance(t, ast.Name):
        out.add(f'{t.id}[{k}]')
    return out


# ====================================================================== row streams (what reaches the csv writer, in order)

def _is_generator(fi):
    return any(isinstance(n, (ast.Yield, ast.YieldFrom)) for n in ast.walk(fi.node))


class Rows:
    """Sequence of rows handed to a writer: ('one', row text) | ('each', row text over HOLE, iterable text)."""

    def __init__(self, m):
        self.m = m
        self.visited = set()    # helper functions / generator methods the rows were followed through

    def each(self, elt, target, it, env, where, outer=None):
        if not isinstance(target, ast.Name):
            raise Undecided(f'{where}: rows produced from a loop with a structured target {u(target)}')
        # locals of the loop body are replaced by their definitions first, then the loop element by the hole
        body_env = {k: v for k, v in env.items() if k != target.id}
        outer = env if outer is None else outer
        if any(target.id in names_in(v) for k, v in outer.items() if k != target.id and isinstance(v, ast.AST)):
            raise Undecided(f'{where}: a local defined before the loop mentions the loop variable {target.id!r}')
        e1 = subst(elt, body_env, where)
        return [('each', u(subst(e1, {target.id: ast.Name(id=HOLE, ctx=ast.Load())}, where)), u(subst(it, outer, where)))]

    def stream(self, fi, e, env, depth=0):
        where = fi.qualname.rsplit('.', 1)[-1]
        if isinstance(e, ast.Name) and e.id in env:
            return self.stream(fi, env[e.id], {}, depth)
        if isinstance(e, (ast.List, ast.Tuple)) and not any(isinstance(x, ast.Starred) for x in e.elts):
            return [('one', u(subst(x, env, where))) for x in e.elts]
        if isinstance(e, ast.BinOp) and isinstance(e.op, ast.Add):
            return self.stream(fi, e.left, env, depth) + self.stream(fi, e.right, env, depth)
        if isinstance(e, (ast.ListComp, ast.GeneratorExp)):
            if len(e.generators) != 1 or e.generators[0].is_async:
                raise Undecided(f'{where}: rows come from a comprehension with several loops: {u(e)[:80]}')
            g = e.generators[0]
            seg = self.each(e.elt, g.target, g.iter, env, where)
            if g.ifs:       # a filter drops rows: a located deviation
                return [('each-filtered',) + seg[0][1:] + (tuple(u(x) for x in g.ifs),)]
            return seg
        if isinstance(e, ast.Call):
            fn = u(e.func)
            if fn in ('list', 'tuple', 'iter') and len(e.args) == 1 and not e.keywords:
                return self.stream(fi, e.args[0], env, depth)
            if fn in ('chain', 'itertools.chain') and not e.keywords and not any(isinstance(a, ast.Starred) for a in e.args):
                out = []
                for a in e.args:
                    out += self.stream(fi, a, env, depth)
                return out
            if fn == 'map' and len(e.args) == 2 and not e.keywords:
                f = subst(e.args[0], env, where)
                if isinstance(f, ast.Lambda):
                    raise Undecided(f'{where}: rows mapped through a lambda: {u(e)[:80]}')
                return [('each', f'{u(f)}({HOLE})', u(subst(e.args[1], env, where)))]
            r = self.m.resolve_call(fi, e)
            tgt = self.m.functions.get(r)
            if tgt is not None and depth < 3 and tgt.module.kind == 'py' and not [d for d in tgt.decorators if u(d) not in ('staticmethod', 'classmethod')]:
                new = bind_call(tgt, e, env, where)
                self.visited.add(tgt.qualname)
                if _is_generator(tgt):
                    return self.gen(tgt, tgt.node.body, new, depth + 1)
                body = [s for s in tgt.node.body if not (isinstance(s, ast.Expr) and isinstance(s.value, ast.Constant))]
                if len(body) == 1 and isinstance(body[0], ast.Return) and body[0].value is not None:
                    return self.stream(tgt, body[0].value, new, depth + 1)
        raise Undecided(f'{where}: the rows handed to the csv writer ({u(e)[:80]}) are not an iterable the rule can evaluate')

    def gen(self, fi, stmts, env, depth):
        where = fi.qualname.rsplit('.', 1)[-1]
        out = []
        env = dict(env)
        for s in stmts:
            if isinstance(s, ast.Pass) or (isinstance(s, ast.Expr) and isinstance(s.value, ast.Constant)):
                continue
            if isinstance(s, ast.Expr) and isinstance(s.value, ast.Yield) and s.value.value is not None:
                out.append(('one', u(subst(s.value.value, env, where))))
            elif isinstance(s, ast.Expr) and isinstance(s.value, ast.YieldFrom):
                out += self.stream(fi, s.value.value, env, depth)
            elif isinstance(s, ast.Assign) and len(s.targets) == 1 and isinstance(s.targets[0], ast.Name) \
                    and not any(isinstance(n, (ast.Yield, ast.YieldFrom)) for n in ast.walk(s.value)):
                env[s.targets[0].id] = subst(s.value, env, where)
            elif isinstance(s, ast.For) and not s.orelse:
                lenv = dict(env)
                elt = None
                cond = None
                for b in s.body:
                    if isinstance(b, ast.Assign) and len(b.targets) == 1 and isinstance(b.targets[0], ast.Name) and not any(isinstance(n, (ast.Yield, ast.YieldFrom)) for n in ast.walk(b.value)):
                        lenv[b.targets[0].id] = subst(b.value, {k: v for k, v in lenv.items() if not (isinstance(s.target, ast.Name) and k == s.target.id)}, where)
                    elif isinstance(b, ast.Expr) and isinstance(b.value, ast.Yield) and b.value.value is not None and elt is None and cond is None:
                        elt = b.value.value
                    elif isinstance(b, ast.If) and elt is None and any(isinstance(n, (ast.Yield, ast.YieldFrom)) for n in ast.walk(b)):
                        cond = ('each-conditional', f'if {u(b.test)[:60]}', u(subst(s.iter, env, where)))     # rows only for some elements: a located deviation
                    else:
                        raise Undecided(f'{where}: generator loop statement the rule cannot evaluate: {u(b)[:80]}')
                if cond is not None:
                    out.append(cond)
                    continue
                if elt is None:
                    raise Undecided(f'{where}: generator loop over {u(s.iter)[:50]} yields nothing')
                out += self.each(elt, s.target, s.iter, lenv, where, outer=env)
            else:
                raise Undecided(f'{where}: generator statement the rule cannot evaluate: {u(s)[:80]}')
        return out


def bind_call(tgt, call, env, where, keep_identity=False):
    """{parameter: argument expression (caller's locals substituted)} for a call of a package function / method."""
    a = tgt.node.args
    if a.vararg or a.kwarg or a.posonlyargs or any(isinstance(x, ast.Starred) for x in call.args) or any(k.arg is None for k in call.keywords):
        raise Undecided(f'{where}: call {u(call)[:60]} uses star arguments')
    params = [x.arg for x in a.args] + [x.arg for x in a.kwonlyargs]
    pos = [x.arg for x in a.args]
    new = {}
    if tgt.cls is not None and pos and pos[0] in ('self', 'cls') and not any(u(d) == 'staticmethod' for d in tgt.decorators):
        recv = call.func.value if isinstance(call.func, ast.Attribute) else None
        if recv is None:
            raise Undecided(f'{where}: method call {u(call)[:60]} without receiver')
        if not (isinstance(recv, ast.Name) and recv.id == pos[0]):
            new[pos[0]] = subst(recv, env, where)
        pos = pos[1:]
    if len(call.args) > len(pos):
        raise Undecided(f'{where}: call {u(call)[:60]} has too many arguments')
    for p, x in zip(pos, call.args):
        new[p] = subst(x, env, where)
    for k in call.keywords:
        if k.arg not in params or k.arg in new:
            raise Undecided(f'{where}: call {u(call)[:60]}: unexpected keyword {k.arg}')
        new[k.arg] = subst(k.value, env, where)
    defaults = dict(zip([x.arg for x in a.args][len(a.args) - len(a.defaults):], a.defaults))
    defaults.update({x.arg: d for x, d in zip(a.kwonlyargs, a.kw_defaults) if d is not None})
    for p in pos + [x.arg for x in a.kwonlyargs]:
        if p not in new:
            if p not in defaults:
                raise Undecided(f'{where}: call {u(call)[:60]}: missing argument {p}')
            new[p] = defaults[p]
    # identity bindings (argument is the same name as the parameter) need no substitution
    return {p: v for p, v in new.items() if keep_identity or not (isinstance(v, ast.Name) and v.id == p)}


def csv_trace(m, fi):
    """What CSVResultsExporter.export writes: csv.writer objects, the row stream handed to them, writes that bypass them."""
    where = fi.qualname.rsplit('.', 1)[-1]
    rows = Rows(m)
    st = dict(files=set(), opened={}, writers={}, bound={}, ctor=[], stream=[], raw=[], handled=0)

    def is_ctor(e):
        return isinstance(e, ast.Call) and u(e.func) == 'csv.writer'

    def writer_of(recv, env):
        """the csv.writer construction a receiver expression denotes, or None"""
        if isinstance(recv, ast.Name) and recv.id in st['writers']:
            return st['writers'][recv.id]
        if is_ctor(recv):
            st['ctor'].append(recv)
            return recv
        return None

    def mentions(node):
        names = {n.id for n in ast.walk(node) if isinstance(n, ast.Name)}
        return bool(names & (st['files'] | set(st['writers']) | set(st['bound'])))

    def other_use(node):
        """A statement that touches the output file / the writer without being a recognised row write: text written to the file
        directly bypasses the csv writer (recorded, a violation); anything else (the file or the writer handed to a callee, an
        unknown writer method) is outside what the rule can evaluate."""
        if not mentions(node):
            return
        direct = [c for c in calls_in(node) if (isinstance(c.func, ast.Attribute) and isinstance(c.func.value, ast.Name) and c.func.value.id in st['files'])
                  or (u(c.func) == 'print' and isinstance(get_kw(c, 'file'), ast.Name) and get_kw(c, 'file').id in st['files'])]
        others = {n.id for n in ast.walk(node) if isinstance(n, ast.Name)} & (set(st['writers']) | set(st['bound']))
        if direct and not others:
            st['raw'].append(u(node)[:80])
            return
        raise Undecided(f'{where}: the output file / csv writer is used in a way the rule cannot evaluate: {u(node)[:80]}')

    def write_calls(node):
        return [c for c in calls_in(node) if callee_attr(c) in ('writerow', 'writerows')]

    def emit(c, env):
        """a `<writer>.writerow(E)` / `.writerows(E)` call -> segments, or None when c is not such a call"""
        if isinstance(c.func, ast.Name) and c.func.id in st['bound']:
            method = st['bound'][c.func.id]
        elif isinstance(c.func, ast.Attribute) and c.func.attr in ('writerow', 'writerows') and writer_of(c.func.value, env) is not None:
            method = c.func.attr
            st['handled'] += 1
        else:
            return None
        if len(c.args) != 1 or c.keywords or isinstance(c.args[0], ast.Starred):
            raise Undecided(f'{where}: {u(c)[:60]}: unexpected arguments')
        if method == 'writerow':
            return [('one', u(subst(c.args[0], env, where)))]
        return rows.stream(fi, c.args[0], env)

    def has_return(node):
        return any(isinstance(x, ast.Return) for x in ast.walk(node))

    def walk(stmts, env):
        """-> True when the statement list always leaves the function (rows written after it are never reached)"""
        for k_, s in enumerate(stmts):
            if isinstance(s, ast.Return):
                if write_calls(s):
                    raise Undecided(f'{where}: a row is written inside {u(s)[:80]}')
                return True          # everything after it is dead: the stream ends here
            if isinstance(s, ast.If) and not write_calls(s) and has_return(s):
                # an early exit: the rows written after it are written only when it is not taken
                rest_start = len(st['stream'])
                done = walk(stmts[k_ + 1:], env)
                later = st['stream'][rest_start:]
                iters = {seg[2] for seg in later if seg and seg[0] == 'each' and len(seg) >= 3}
                t_ = u(subst(s.test, env, where))
                empty = {f for it in iters for f in (f'not {it}', f'len({it}) == 0', f'0 == len({it})', f'{it} == []', f'[] == {it}')}
                if not (later and all(seg[0] == 'each' for seg in later) and len(iters) == 1 and t_ in empty and not s.orelse
                        and all(isinstance(x, ast.Return) and x.value is None for x in s.body)):
                    # (leaving early when the only rows still to come are one per element of an EMPTY sequence changes nothing)
                    st['stream'] = st['stream'][:rest_start] + [(f'unless `{u(s.test)[:40]}` returns first',) + seg for seg in later]
                return done
            if isinstance(s, ast.With):
                for i in s.items:
                    if i.optional_vars is not None and isinstance(i.optional_vars, ast.Name):
                        st['files'].add(i.optional_vars.id)
                        st['opened'][i.optional_vars.id] = subst(i.context_expr, env, where)
                if walk(s.body, env):
                    return True
            elif isinstance(s, ast.Assign) and len(s.targets) == 1 and isinstance(s.targets[0], ast.Name):
                if is_ctor(s.value):
                    st['writers'][s.targets[0].id] = s.value
                    st['ctor'].append(s.value)
                elif isinstance(s.value, ast.Attribute) and s.value.attr in ('writerow', 'writerows') and writer_of(s.value.value, env) is not None:
                    st['bound'][s.targets[0].id] = s.value.attr      # bound method of the writer kept in a local
                else:
                    if write_calls(s.value) or mentions(s.value):
                        raise Undecided(f'{where}: the output file / csv writer flows into a local the rule cannot follow: {u(s)[:80]}')
                    env[s.targets[0].id] = subst(s.value, env, where)
            elif isinstance(s, ast.Expr) and isinstance(s.value, ast.Call):
                seg = emit(s.value, env)
                if seg is not None:
                    st['stream'] += seg
                elif write_calls(s.value):
                    raise Undecided(f'{where}: a row is written through {u(s.value.func)[:60]}, which is not a csv.writer the rule can see')
                else:
                    other_use(s)
            elif isinstance(s, ast.For) and not s.orelse:
                wc = write_calls(s) + [c for c in calls_in(s) if isinstance(c.func, ast.Name) and c.func.id in st['bound']]
                if not wc:
                    other_use(s)
                    continue
                lenv = dict(env)
                seg = None
                cond = None
                for b in s.body:
                    if isinstance(b, ast.Assign) and len(b.targets) == 1 and isinstance(b.targets[0], ast.Name) and not write_calls(b.value):
                        lenv[b.targets[0].id] = subst(b.value, {k: v for k, v in lenv.items() if not (isinstance(s.target, ast.Name) and k == s.target.id)}, where)
                    elif isinstance(b, ast.Expr) and isinstance(b.value, ast.Call) and seg is None and cond is None and len(b.value.args) == 1 and not b.value.keywords and not isinstance(b.value.args[0], ast.Starred) \
                            and ((isinstance(b.value.func, ast.Attribute) and b.value.func.attr == 'writerow' and writer_of(b.value.func.value, lenv) is not None)
                                 or (isinstance(b.value.func, ast.Name) and st['bound'].get(b.value.func.id) == 'writerow')):
                        if isinstance(b.value.func, ast.Attribute):
                            st['handled'] += 1
                        seg = b.value.args[0]
                    elif not write_calls(b) and not any(isinstance(c.func, ast.Name) and c.func.id in st['bound'] for c in calls_in(b)):
                        other_use(b)        # a statement that writes no row: irrelevant unless it touches the file / writer
                    elif isinstance(b, ast.If) and seg is None and write_calls(b) and all(writer_of(c.func.value, lenv) is not None for c in write_calls(b) if isinstance(c.func, ast.Attribute)):
                        # rows written only for some items: a located deviation
                        st['handled'] += len(write_calls(b))
                        cond = ('each-conditional', f'if {u(b.test)[:60]}', u(subst(s.iter, env, where)))
                    else:
                        raise Undecided(f'{where}: the loop over {u(s.iter)[:40]} writes rows in a form the rule cannot evaluate: {u(b)[:80]}')
                if cond is not None:
                    st['stream'].append(cond)
                    continue
                if seg is None:
                    raise Undecided(f'{where}: the loop over {u(s.iter)[:40]} writes rows in a form the rule cannot evaluate')
                st['stream'] += rows.each(seg, s.target, s.iter, lenv, where, outer=env)
            elif isinstance(s, ast.If) and write_calls(s):
                saved = st['stream']
                st['stream'] = []
                walk(s.body, dict(env))
                walk(s.orelse, dict(env))
                st['stream'] = saved + [(f'under `if {u(s.test)[:40]}`',) + seg for seg in st['stream']]
            elif isinstance(s, ast.Pass) or (isinstance(s, ast.Expr) and isinstance(s.value, ast.Constant)):
                pass
            else:
                if write_calls(s) or mentions(s):
                    raise Undecided(f'{where}: rows are written under a statement the rule cannot evaluate: {u(s)[:80]}')
        return False
    walk(fi.node.body, {})
    st['calls'] = len(write_calls(fi.node))
    st['visited'] = rows.visited
    return st


# ====================================================================== concrete evaluation of getattr_nested on a finite domain

class _Ret(Exception):
    def __init__(self, v):
        self.v = v


class _Brk(Exception):
    pass


class _Cont(Exception):
    pass


class _Raise(Exception):
    def __init__(self, kind):
        self.kind = kind


class PObj:
    """An opaque object reached from the root by a path of attribute names (possibly one whose truth value is False: 0, '', 0.0)."""

    def __init__(self, path, falsy=False):
        self.path = tuple(path)
        self.falsy = falsy

    def __eq__(self, o):
        return isinstance(o, PObj) and o.path == self.path

    def __hash__(self):
        return hash(self.path)

    def __repr__(self):
        return 'root' + ''.join('.' + p for p in self.path) + (' (falsy)' if self.falsy else '')


class Coverage:
    """What a family of evaluations exercised: statements executed, outcomes of every test, functions entered.  A bounded evaluation
    can vouch only for code its domain reaches: `uncovered()` lists statements never executed and tests with a single outcome on
    which code hangs - the caller then reports the run as undecided, never as a pass."""

    def __init__(self):
        self.seen_stmt = set()
        self.seen_test = {}
        self.funcs = {}

    def enter(self, fi):
        self.funcs[fi.qualname] = fi

    def stmt(self, s):
        self.seen_stmt.add(id(s))

    def test(self, node, outcome):
        self.seen_test.setdefault(id(node), set()).add(bool(outcome))

    def uncovered(self):
        out = []
        for q, fi in sorted(self.funcs.items()):
            for s in stmts_in(fi.node.body):
                if isinstance(s, (ast.FunctionDef, ast.AsyncFunctionDef, ast.ClassDef, ast.Pass)) or (isinstance(s, ast.Expr) and isinstance(s.value, ast.Constant)):
                    continue
                if id(s) not in self.seen_stmt:
                    out.append(f'{q}: statement never reached on the evaluated domain: `{u(s)[:70]}` ({fi.file}:{s.lineno})')
            for n in ast.walk(fi.node):
                if isinstance(n, (ast.If, ast.While, ast.IfExp)) and not isinstance(n.test, ast.Constant):
                    got = self.seen_test.get(id(n))
                    if got is not None and len(got) < 2:
                        if True in got and isinstance(n, ast.If) and not n.orelse:
                            continue      # nothing hangs on the untaken outcome
                        out.append(f'{q}: test `{u(n.test)[:70]}` is always {sorted(got)[0]} on the evaluated domain ({fi.file}:{n.lineno})')
        return out


class ClassV:
    """A class of the analysed package, as a value (by reference name)."""

    def __init__(self, qualname):
        self.qualname = qualname

    def __eq__(self, o):
        return isinstance(o, ClassV) and o.qualname == self.qualname

    def __hash__(self):
        return hash(('ClassV', self.qualname))

    def __repr__(self):
        return self.qualname.rsplit('.', 1)[-1]


class Inst:
    """A fresh instance of a package class: which class, constructed with which arguments."""

    def __init__(self, cls, args=(), kwargs=()):
        self.cls = cls
        self.args = tuple(args)
        self.kwargs = tuple(sorted(kwargs))

    def __eq__(self, o):
        return isinstance(o, Inst) and (o.cls, o.args, o.kwargs) == (self.cls, self.args, self.kwargs)

    def __hash__(self):
        return hash(('Inst', self.cls))

    def __repr__(self):
        a = [repr(x) for x in self.args] + [f'{k}={v!r}' for k, v in self.kwargs]
        return f'{self.cls!r}({", ".join(a)})'


class Tok:
    """An uninterpreted constant named by its source text (csv.QUOTE_MINIMAL)."""

    def __init__(self, text):
        self.text = text

    def __eq__(self, o):
        return isinstance(o, Tok) and o.text == self.text

    def __hash__(self):
        return hash(('Tok', self.text))

    def __repr__(self):
        return self.text


class Conc:
    """Interpreter for the small imperative subset getattr_nested is written in, over a world in which the attribute chain
    is opaque objects except for one position that holds None.  Every getattr call is traced."""

    TYPES = {'str': str, 'list': list, 'tuple': tuple, 'dict': dict, 'int': int, 'bool': bool}
    MAX_STEPS = 200

    def __init__(self, none_path, where, falsy_path=None, model=None, module=None, cov=None):
        self.none_path = none_path
        self.falsy_path = falsy_path
        self.trace = []
        self.where = where
        self.steps = 0
        self.model = model      # to evaluate calls of small package helpers through their own definition
        self.module = module
        self.depth = 0
        self.attrs = {}         # (object path, attribute) -> value stored by the evaluated code
        self.cov = cov if cov is not None else Coverage()
        self.consts = {}        # (module, name) -> value of a module-level constant

    def getattr(self, o, name, *default):
        self.trace.append((repr(o), name))
        if not isinstance(name, str):
            raise _Raise('TypeError')
        if isinstance(o, PObj):
            p = o.path + (name,)
            return None if p == self.none_path else PObj(p, p == self.falsy_path)
        if o is None:
            if default:
                return default[0]
            raise _Raise('AttributeError')
        raise Undecided(f'{self.where}: getattr on a value that is not an object of the chain ({o!r})')

    def truth(self, v):
        if isinstance(v, PObj):
            return not v.falsy
        if isinstance(v, Tok):
            raise Undecided(f'{self.where}: truth value of the uninterpreted constant {v!r}')
        if v is None or isinstance(v, (bool, int, str, list, tuple, dict)):
            return bool(v)
        if isinstance(v, (type, ClassV, Inst)):
            return True
        raise Undecided(f'{self.where}: truth value of {v!r}')

    def ev(self, e, env):
        if isinstance(e, ast.Constant):
            return e.value
        if isinstance(e, ast.Name):
            if e.id in env:
                return env[e.id]
            if e.id in self.TYPES:
                return self.TYPES[e.id]
            if self.model is not None and self.module is not None:
                r = self.model.resolve(self.module, e)
                if r in self.model.classes:
                    return ClassV(r)
                if r is not None and '.' in r:
                    # a module-level constant (a dispatch table ...): evaluated through its definition, once
                    mq, attr = r.rsplit('.', 1)
                    mod = self.model.modules.get(mq)
                    if mod is not None and attr in mod.assigns and self.depth < 3:
                        if (mq, attr) not in self.consts:
                            rebound = sum(1 for n in ast.walk(mod.tree) if isinstance(n, ast.Name) and n.id == attr and isinstance(n.ctx, (ast.Store, ast.Del)))
                            if rebound != 1:
                                raise Undecided(f'{self.where}: module-level name {attr!r} of {mq} is bound {rebound} times')
                            saved = self.module
                            self.module, self.depth = mod, self.depth + 1
                            try:
                                self.consts[(mq, attr)] = self.ev(mod.assigns[attr], {})
                            finally:
                                self.module, self.depth = saved, self.depth - 1
                        return self.consts[(mq, attr)]
            raise Undecided(f'{self.where}: name {e.id!r} is not a local the rule can evaluate')
        if isinstance(e, ast.UnaryOp) and isinstance(e.op, ast.Not):
            return not self.truth(self.ev(e.operand, env))
        if isinstance(e, ast.UnaryOp) and isinstance(e.op, ast.USub):
            v = self.ev(e.operand, env)
            if isinstance(v, int) and not isinstance(v, bool):
                return -v
            raise Undecided(f'{self.where}: arithmetic {u(e)[:60]}')
        if isinstance(e, ast.BoolOp):
            v = None
            for x in e.values:
                v = self.ev(x, env)
                if isinstance(e.op, ast.And) and not self.truth(v):
                    return v
                if isinstance(e.op, ast.Or) and self.truth(v):
                    return v
            return v
        if isinstance(e, ast.IfExp):
            t = self.truth(self.ev(e.test, env))
            self.cov.test(e, t)
            return self.ev(e.body, env) if t else self.ev(e.orelse, env)
        if isinstance(e, ast.Compare):
            left = self.ev(e.left, env)
            for op, r in zip(e.ops, e.comparators):
                right = self.ev(r, env)
                t = type(op).__name__
                if t == 'Is':
                    ok = left is right or (isinstance(left, (PObj, ClassV)) and left == right)
                elif t == 'IsNot':
                    ok = not (left is right or (isinstance(left, (PObj, ClassV)) and left == right))
                elif t == 'Eq':
                    ok = left == right
                elif t == 'NotEq':
                    ok = left != right
                elif t in ('In', 'NotIn') and isinstance(right, (list, tuple, str, dict)) and not (isinstance(right, str) and not isinstance(left, str)):
                    ok = (left in right) == (t == 'In')
                elif t in ('Lt', 'LtE', 'Gt', 'GtE') and isinstance(left, int) and isinstance(right, int):
                    ok = {'Lt': left < right, 'LtE': left <= right, 'Gt': left > right, 'GtE': left >= right}[t]
                else:
                    raise Undecided(f'{self.where}: comparison {u(e)[:60]}')
                if not ok:
                    return False
                left = right
            return True
        if isinstance(e, (ast.List, ast.Tuple)):
            v = []
            for x in e.elts:
                if isinstance(x, ast.Starred):      # [*rows, ...]: the rows of another table
                    sp = self.ev(x.value, env)
                    if not isinstance(sp, (list, tuple)):
                        raise Undecided(f'{self.where}: unpacking of {u(x.value)[:50]} (value {sp!r})')
                    v += list(sp)
                else:
                    v.append(self.ev(x, env))
            return v if isinstance(e, ast.List) else tuple(v)
        if isinstance(e, ast.Subscript) and not isinstance(e.slice, ast.Slice):
            b, i = self.ev(e.value, env), self.ev(e.slice, env)
            if isinstance(b, (list, tuple, str)) and isinstance(i, int) and not isinstance(i, bool):
                try:
                    return b[i]
                except IndexError:
                    raise _Raise('IndexError')
            if isinstance(b, dict):
                k = self.key(i, e)
                if k not in b:
                    raise _Raise('KeyError')
                return b[k]
            raise Undecided(f'{self.where}: subscript {u(e)[:60]}')
        if isinstance(e, ast.Subscript):
            b = self.ev(e.value, env)
            lo = None if e.slice.lower is None else self.ev(e.slice.lower, env)
            hi = None if e.slice.upper is None else self.ev(e.slice.upper, env)
            step = None if e.slice.step is None else self.ev(e.slice.step, env)
            if isinstance(b, (list, tuple, str)) and step != 0 and all(x is None or (isinstance(x, int) and not isinstance(x, bool)) for x in (lo, hi, step)):
                return b[lo:hi:step]
            raise Undecided(f'{self.where}: slice {u(e)[:60]}')
        if isinstance(e, ast.BinOp) and isinstance(e.op, (ast.Add, ast.Sub)):
            l, r = self.ev(e.left, env), self.ev(e.right, env)
            if isinstance(l, int) and isinstance(r, int):
                return l + r if isinstance(e.op, ast.Add) else l - r
            if isinstance(e.op, ast.Add) and type(l) is type(r) and isinstance(l, (str, list, tuple)):
                return l + r        # concatenation of texts / tables
            raise Undecided(f'{self.where}: arithmetic {u(e)[:60]}')
        if isinstance(e, ast.JoinedStr):
            out = ''
            for part in e.values:
                if isinstance(part, ast.Constant):
                    out += str(part.value)
                    continue
                v = self.ev(part.value, env)
                if part.format_spec is not None or not (v is None or type(v) in (str, int, bool)) or part.conversion not in (-1, 114, 115):
                    return '<formatted text>'       # a text the rules do not look into (messages)
                out += repr(v) if part.conversion == 114 else str(v)
            return out
        if isinstance(e, (ast.ListComp, ast.GeneratorExp)):
            rows = []

            def loops(i, env2):
                if i == len(e.generators):
                    rows.append(self.ev(e.elt, env2))
                    return
                g = e.generators[i]
                it = self.ev(g.iter, env2)
                if isinstance(it, dict):
                    it = list(it)
                if g.is_async or not isinstance(it, (list, tuple)):
                    raise Undecided(f'{self.where}: comprehension over {u(g.iter)[:40]} (value {it!r})')
                for x in it:
                    env3 = dict(env2)
                    self.assign(g.target, x, env3, e)
                    if all(self.truth(self.ev(c, env3)) for c in g.ifs):
                        loops(i + 1, env3)
            loops(0, dict(env))
            return rows
        if isinstance(e, ast.Call):
            return self.call(e, env)
        if isinstance(e, ast.Attribute):
            if isinstance(e.value, ast.Name) and e.value.id not in env and e.value.id not in self.TYPES:
                return Tok(u(e))        # a constant of another module (csv.QUOTE_MINIMAL): an uninterpreted token
            b = self.ev(e.value, env)
            if isinstance(b, PObj) and (b.path, e.attr) in self.attrs:
                return self.attrs[(b.path, e.attr)]
            raise Undecided(f'{self.where}: attribute the rule cannot evaluate: {u(e)[:60]}')
        if isinstance(e, ast.Dict):
            d = {}
            for k, v in zip(e.keys, e.values):
                if k is None:
                    sp = self.ev(v, env)
                    if not isinstance(sp, dict):
                        raise Undecided(f'{self.where}: spread of {u(v)[:40]}')
                    d.update(sp)
                else:
                    d[self.key(self.ev(k, env), e)] = self.ev(v, env)
            return d
        raise Undecided(f'{self.where}: expression the rule cannot evaluate: {u(e)[:60]}')

    def key(self, k, node):
        if isinstance(k, (str, int, Tok, ClassV)) or k is None:
            return k
        raise Undecided(f'{self.where}: dict key {k!r} in {u(node)[:60]}')

    DICT_METHODS = ('setdefault', 'get', 'items', 'keys', 'values', 'update', 'copy', 'pop')
    LIST_METHODS = ('append', 'extend', 'copy')
    CACHES = ('lru_cache', 'functools.lru_cache', 'cache', 'functools.cache')

    def call_user(self, tgt, args, e):
        """A call of a small package helper, evaluated through its own definition.  functools.lru_cache / cache wrappers are
        transparent (trusted: memoisation of a function of hashable arguments returns the value the function returns)."""
        for d in tgt.decorators:
            if u(d.func if isinstance(d, ast.Call) else d) not in self.CACHES:
                raise Undecided(f'{self.where}: call of {tgt.name}, decorated with {u(d)[:40]}')
        a = tgt.node.args
        if a.vararg or a.kwarg or a.kwonlyargs or a.posonlyargs or self.depth >= 3 or any(isinstance(n, (ast.Yield, ast.YieldFrom)) for n in ast.walk(tgt.node)):
            raise Undecided(f'{self.where}: call the rule cannot evaluate: {u(e)[:60]}')
        params = [x.arg for x in a.args]
        if len(args) > len(params):
            raise _Raise('TypeError')
        new = dict(zip(params, args))
        for p, dflt in zip(params[len(params) - len(a.defaults):], a.defaults):
            if p not in new:
                new[p] = self.ev(dflt, {})
        if len(new) != len(params):
            raise _Raise('TypeError')
        self.depth += 1
        self.cov.enter(tgt)
        try:
            self.run(tgt.node.body, new)
        except _Ret as r:
            return r.v
        except (_Brk, _Cont):
            raise Undecided(f'{self.where}: break / continue outside a loop in {tgt.name}')
        finally:
            self.depth -= 1
        return None

    def call(self, e, env):
        f = e.func
        if not any(isinstance(a, ast.Starred) for a in e.args) and all(k.arg for k in e.keywords) and (
                (isinstance(f, ast.Name) and (f.id in env or (f.id not in self.TYPES and self.model is not None and self.model.resolve(self.module, f) in self.model.classes)))
                or isinstance(f, (ast.Subscript, ast.IfExp))):
            fv = self.ev(f, env)
            if isinstance(fv, ClassV):      # instantiation of a package class: a fresh instance, remembered with its arguments
                return Inst(fv, [self.ev(a, env) for a in e.args], [(k.arg, self.ev(k.value, env)) for k in e.keywords])
            if not isinstance(f, ast.Name):
                raise Undecided(f'{self.where}: call of the value {fv!r} in {u(e)[:60]}')
        if isinstance(f, ast.Name) and f.id == 'dict' and f.id not in env and len(e.args) <= 1 and not any(isinstance(a, ast.Starred) for a in e.args):
            d = {}
            for src in [self.ev(a, env) for a in e.args] + [self.ev(k.value, env) for k in e.keywords if k.arg is None]:
                if not isinstance(src, dict):
                    raise Undecided(f'{self.where}: call {u(e)[:60]}')
                d.update(src)
            d.update({k.arg: self.ev(k.value, env) for k in e.keywords if k.arg is not None})
            return d
        if e.keywords or any(isinstance(a, ast.Starred) for a in e.args):
            raise Undecided(f'{self.where}: call {u(e)[:60]}')
        if isinstance(f, ast.Attribute) and f.attr != 'split':
            b = self.ev(f.value, env)
            args = [self.ev(a, env) for a in e.args]
            if isinstance(b, str) and f.attr == 'join' and len(args) == 1 and isinstance(args[0], (list, tuple)) and all(isinstance(x, str) for x in args[0]):
                return b.join(args[0])
            if isinstance(b, dict) and f.attr in self.DICT_METHODS:
                if f.attr in ('setdefault', 'get', 'pop') and args:
                    self.key(args[0], e)
                try:
                    r = getattr(b, f.attr)(*args)
                except KeyError:
                    raise _Raise('KeyError')
                except TypeError:
                    raise Undecided(f'{self.where}: call {u(e)[:60]}')
                return list(r) if f.attr in ('items', 'keys', 'values') else r
            if isinstance(b, list) and f.attr in self.LIST_METHODS:
                return getattr(b, f.attr)(*args)
            if (b is None or type(b) in (str, list, tuple, dict, int, bool)) and not hasattr(b, f.attr):
                raise _Raise('AttributeError')
            raise Undecided(f'{self.where}: call the rule cannot evaluate: {u(e)[:60]}')
        if isinstance(f, ast.Name) and f.id not in env:
            args = [self.ev(a, env) for a in e.args]
            if f.id == 'type' and len(args) == 1:
                return object if isinstance(args[0], (PObj, Tok)) else type(args[0])
            if f.id == 'getattr' and len(args) in (2, 3):
                return self.getattr(*args)
            if f.id == 'isinstance' and len(args) == 2:
                ts = args[1] if isinstance(args[1], tuple) else (args[1],)
                if all(isinstance(t, type) for t in ts):
                    return (not isinstance(args[0], PObj)) and isinstance(args[0], tuple(ts))
                if all(t is None or type(t) in (str, list, dict, int, bool, type) for t in ts):
                    raise _Raise('TypeError')
            if f.id == 'len' and len(args) == 1 and isinstance(args[0], (list, tuple, str)):
                return len(args[0])
            if f.id in ('list', 'tuple') and len(args) == 1 and isinstance(args[0], (list, tuple)):
                return list(args[0]) if f.id == 'list' else tuple(args[0])
            if f.id == 'bool' and len(args) == 1:
                return self.truth(args[0])
            if f.id == 'range' and 1 <= len(args) <= 2 and all(isinstance(a, int) for a in args):
                return list(range(*args))
            if self.model is not None and self.module is not None:
                tgt = self.model.functions.get(self.model.resolve(self.module, f))
                if tgt is not None and tgt.cls is None and tgt.module.kind == 'py':
                    return self.call_user(tgt, args, e)
        if isinstance(f, ast.Attribute) and f.attr == 'split':
            b = self.ev(f.value, env)
            args = [self.ev(a, env) for a in e.args]
            if isinstance(b, str) and len(args) == 1 and isinstance(args[0], str) and args[0]:
                return b.split(args[0])
            if isinstance(b, str) and len(args) == 2 and isinstance(args[0], str) and args[0] and isinstance(args[1], int) and not isinstance(args[1], bool):
                return b.split(args[0], args[1])
            if b is None or type(b) in (list, tuple, dict, int, bool):
                raise _Raise('AttributeError')
        raise Undecided(f'{self.where}: call the rule cannot evaluate: {u(e)[:60]}')

    def assign(self, t, v, env, stmt):
        if isinstance(t, ast.Name):
            env[t.id] = v
        elif isinstance(t, (ast.Tuple, ast.List)) and isinstance(v, (list, tuple)) and not any(isinstance(x, ast.Starred) for x in t.elts):
            if len(v) != len(t.elts):
                raise _Raise('ValueError')
            for tt, x in zip(t.elts, v):
                self.assign(tt, x, env, stmt)
        elif isinstance(t, ast.Subscript) and not isinstance(t.slice, ast.Slice):
            b = self.ev(t.value, env)
            if not isinstance(b, dict):
                raise Undecided(f'{self.where}: store the rule cannot evaluate: {u(stmt)[:80]}')
            b[self.key(self.ev(t.slice, env), stmt)] = v
        elif isinstance(t, ast.Attribute):
            b = self.ev(t.value, env)
            if not isinstance(b, PObj):
                raise Undecided(f'{self.where}: store the rule cannot evaluate: {u(stmt)[:80]}')
            self.attrs[(b.path, t.attr)] = v
        else:
            raise Undecided(f'{self.where}: store the rule cannot evaluate: {u(stmt)[:80]}')

    def run(self, stmts, env):
        for s in stmts:
            self.steps += 1
            self.cov.stmt(s)
            if self.steps > self.MAX_STEPS:
                raise Undecided(f'{self.where}: evaluation does not terminate within {self.MAX_STEPS} steps')
            if isinstance(s, ast.Pass) or (isinstance(s, ast.Expr) and isinstance(s.value, ast.Constant)):
                continue
            if isinstance(s, ast.Assign):
                v = self.ev(s.value, env)
                for t in s.targets:
                    self.assign(t, v, env, s)
            elif isinstance(s, ast.AnnAssign) and isinstance(s.target, ast.Name):
                if s.value is not None:
                    env[s.target.id] = self.ev(s.value, env)
            elif isinstance(s, ast.AugAssign) and isinstance(s.target, ast.Name) and isinstance(s.op, (ast.Add, ast.Sub)):
                l, r = self.ev(s.target, env), self.ev(s.value, env)
                if not (isinstance(l, int) and isinstance(r, int)):
                    raise Undecided(f'{self.where}: {u(s)[:60]}')
                env[s.target.id] = l + r if isinstance(s.op, ast.Add) else l - r
            elif isinstance(s, ast.If):
                t = self.truth(self.ev(s.test, env))
                self.cov.test(s, t)
                self.run(s.body if t else s.orelse, env)
            elif isinstance(s, ast.For):
                it = self.ev(s.iter, env)
                if isinstance(it, dict):
                    it = list(it)
                if not isinstance(it, (list, tuple)):
                    raise Undecided(f'{self.where}: loop over {u(s.iter)[:40]} (value {it!r})')
                broke = False
                for x in list(it):
                    self.assign(s.target, x, env, s)
                    try:
                        self.run(s.body, env)
                    except _Brk:
                        broke = True
                        break
                    except _Cont:
                        continue
                if not broke:
                    self.run(s.orelse, env)
            elif isinstance(s, ast.While):
                broke = False
                while True:
                    t = self.truth(self.ev(s.test, env))
                    self.cov.test(s, t)
                    if not t:
                        break
                    self.steps += 1
                    if self.steps > self.MAX_STEPS:
                        raise Undecided(f'{self.where}: evaluation does not terminate within {self.MAX_STEPS} steps')
                    try:
                        self.run(s.body, env)
                    except _Brk:
                        broke = True
                        break
                    except _Cont:
                        continue
                if not broke:
                    self.run(s.orelse, env)
            elif isinstance(s, ast.Return):
                raise _Ret(None if s.value is None else self.ev(s.value, env))
            elif isinstance(s, ast.Raise) and s.exc is not None:
                x = s.exc.func if isinstance(s.exc, ast.Call) else s.exc
                if not isinstance(x, (ast.Name, ast.Attribute)):
                    raise Undecided(f'{self.where}: raise of {u(s.exc)[:60]}')
                raise _Raise(u(x))
            elif isinstance(s, ast.Break):
                raise _Brk()
            elif isinstance(s, ast.Continue):
                raise _Cont()
            elif isinstance(s, ast.Expr) and isinstance(s.value, ast.Call):
                self.ev(s.value, env)
            else:
                raise Undecided(f'{self.where}: statement the rule cannot evaluate: {u(s)[:80]}')


def nested_spec(names, special_depth, kind, pass_none):
    """Required outcome and getattr trace of following `names` from the root when the value at depth special_depth is None
    (kind 'none') or a present value whose truth value is False (kind 'falsy')."""
    def at(depth, path):
        if depth == special_depth:
            return None if kind == 'none' else PObj(path, True)
        return PObj(path)
    trace = []
    cur = at(0, ())
    for i, n in enumerate(names):
        if pass_none and cur is None:
            return ('return', None), trace
        trace.append((repr(cur), n))
        if cur is None:
            return ('raise', 'AttributeError'), trace
        cur = at(i + 1, cur.path + (n,))
    return ('return', cur), trace


def check_getattr_nested(m, fg, max_len=3):
    """Exhaustive evaluation on chains of up to max_len attributes (the longest path of the exported table plus one) x position of a None /
    of a falsy present value x pass_none x spelling of the path.  Side-condition: the domain must exercise every statement and every test
    outcome code hangs on, in getattr_nested and in every helper it calls - otherwise Undecided (code the domain never reaches cannot be vouched for).
    -> (number of worlds, first disagreement or None)"""
    params = fg.params()
    if len(params) != 3 or fg.node.args.vararg or fg.node.args.kwarg:
        raise Undecided(f'getattr_nested: unexpected signature {params}')
    pool = ['alpha', 'beta', 'gamma', 'delta', 'epsilon', 'zeta', 'eta', 'theta'] + [f'name{i}' for i in range(8, max_len)]
    n_worlds = 0
    cov = Coverage()
    cov.enter(fg)
    for n in range(0, max_len + 1):
        names = pool[:n]
        for depth, kind in [(None, 'none')] + [(d, k) for d in range(0, n + 1) for k in ('none', 'falsy')]:
            for pass_none in (False, True):
                forms = [('list', list(names)), ('tuple', tuple(names))] + ([('dotted str', '.'.join(names))] if n else [])
                for fname, attrs in forms:
                    want, wtrace = nested_spec(names, depth, kind, pass_none)
                    sp = tuple(names[:depth]) if depth else None
                    c = Conc(sp if kind == 'none' else None, 'getattr_nested', sp if kind == 'falsy' else None, model=m, module=fg.module, cov=cov)
                    root = PObj(()) if depth != 0 else (None if kind == 'none' else PObj((), True))
                    env = {params[0]: root, params[1]: attrs, params[2]: pass_none}
                    try:
                        c.run(fg.node.body, env)
                        got = ('return', None)
                    except _Ret as r:
                        got = ('return', r.v)
                    except _Raise as r:
                        got = ('raise', r.kind)
                    except (_Brk, _Cont):
                        raise Undecided('getattr_nested: break / continue outside a loop')
                    n_worlds += 1
                    if got != want or c.trace != wtrace:
                        return n_worlds, dict(path=attrs, special_value=f'{kind} at depth {depth}', pass_none=pass_none, required=want, found=got, required_getattr_calls=wtrace, found_getattr_calls=c.trace)
    unc = cov.uncovered()
    if unc:
        raise Undecided('getattr_nested: the bounded evaluation does not cover the code: ' + '; '.join(unc[:3]))
    return n_worlds, None


def path_argument_deviation(m, gr, ir, path_expr, cols):
    """The cell hands getattr_nested an expression computed from the table row instead of the row's path itself.  Evaluate it for every
    row of the literal COLUMNS table: it must yield the path string or the sequence of its attribute names (the spellings on which
    getattr_nested is checked against its specification).  -> None or the first deviation."""
    for hdr, path in cols:
        c = Conc(None, 'get_row', model=m, module=gr.module)
        env = {}
        try:
            c.assign(ir['target'], (hdr, path), env, ir['target'])
            v = c.ev(path_expr, env)
        except _Raise as r:
            return dict(column=hdr, path=path, path_argument=f'raises {r.kind}')
        if not (v == path or (isinstance(v, (list, tuple)) and list(v) == path.split('.'))):
            return dict(column=hdr, path=path, path_argument=repr(v))
    return None


def check_default_dialect(m, init):
    """CSVResultsExporter.__init__ evaluated on a finite family of keyword option sets: the options stored on the exporter must be the
    caller's options, completed - when no dialect is named - by lineterminator='\\n' and quoting=csv.QUOTE_MINIMAL where not given.
    -> (number of option sets, first deviation or None)"""
    a = init.node.args
    if a.kwarg is None or a.vararg or a.kwonlyargs or a.posonlyargs or len(a.args) != 1:
        raise Undecided(f'CSVResultsExporter.__init__: signature {u(a)} is not (self, **options)')
    defaults = {'lineterminator': '\n', 'quoting': Tok('csv.QUOTE_MINIMAL')}
    family = [{}, {'delimiter': ';'}, {'quoting': Tok('<caller quoting>')}, {'lineterminator': '\r\n'}, {'quoting': Tok('<caller quoting>'), 'lineterminator': '\r\n', 'delimiter': '\t'},
              {'dialect': Tok('<caller dialect>')}, {'dialect': Tok('<caller dialect>'), 'quoting': Tok('<caller quoting>')}, {'dialect': Tok('<caller dialect>'), 'lineterminator': '\r\n', 'delimiter': ';'}]
    n = 0
    cov = Coverage()
    cov.enter(init)
    for opts in family:
        c = Conc(None, 'CSVResultsExporter.__init__', model=m, module=init.module, cov=cov)
        me = PObj(())
        try:
            c.run(init.node.body, {a.args[0].arg: me, a.kwarg.arg: dict(opts)})
        except _Ret:
            pass
        except _Raise as r:
            return n, dict(options=opts, found=f'raises {r.kind}')
        except (_Brk, _Cont):
            raise Undecided('CSVResultsExporter.__init__: break / continue outside a loop')
        n += 1
        got = c.attrs.get(((), 'format_opts'))
        if not isinstance(got, dict):
            return n, dict(options=opts, found=f'format_opts = {got!r}')
        if 'dialect' in opts:
            ok = all(got.get(k, None) == v and k in got for k, v in opts.items())
            want = f'at least {opts}'
        else:
            want = dict(defaults)
            want.update(opts)
            ok = got == want
        if not ok:
            return n, dict(options=opts, required=want, found=got)
    unc = cov.uncovered()
    if unc:
        raise Undecided('CSVResultsExporter.__init__: the evaluated option sets do not cover the code: ' + '; '.join(unc[:3]))
    return n, None


def column_table(m, ex, node):
    """The (header, path) table CSVResultsExporter.COLUMNS holds once the class body has run: a literal, or built at class-definition time
    from literal tables by concatenation / unpacking / comprehensions / calls of module-level helpers, evaluated through their definitions
    (the construction itself is evaluated, not a sample of inputs)."""
    try:
        cols = ast.literal_eval(node)
    except Exception:
        c = Conc(None, f'{ex.name}.COLUMNS', model=m, module=ex.module)
        env = {}
        # names of the class body defined before the table (class-level helper tables)
        for sub in ex.node.body:
            if isinstance(sub, ast.Assign) and len(sub.targets) == 1 and isinstance(sub.targets[0], ast.Name):
                if sub.value is node:
                    break
                if any(isinstance(n, ast.Name) and n.id == sub.targets[0].id for n in ast.walk(node)):
                    env[sub.targets[0].id] = c.ev(sub.value, env)
        try:
            cols = c.ev(node, env)
        except _Raise as r:
            raise Undecided(f'{ex.name}.COLUMNS: building the table raises {r.kind}')
    if not (isinstance(cols, (list, tuple)) and all(isinstance(r, (list, tuple)) and len(r) == 2 and all(isinstance(x, str) for x in r) for r in cols)):
        raise Undecided(f'{ex.name}.COLUMNS does not evaluate to a table of (header, path) pairs: {str(cols)[:120]}')
    return [tuple(r) for r in cols]


# ====================================================================== CSV

def check_csv(ctx):
    rep, m = ctx.rep, ctx.model
    ex = m.cls(f'{R}.CSVResultsExporter')
    cols_node = ex.class_attrs.get('COLUMNS')
    rep.require(cols_node is not None, 'CSVResultsExporter.COLUMNS not found')
    cols = column_table(m, ex, cols_node)
    rep.floor('E1', 'CSV columns', len(cols), 1)
    for hdr, path in cols:
        ok, why = resolve_path(m, 'gambit.query.QueryResultItem', path)
        rep.add('E1', ex.site(cols_node), f'column {hdr!r}: path {path} resolves against the result model', ok, expected='every step is a declared attribute', found=why, stmt=f'path {hdr}')
        if '.' in hdr:
            pre, suf = hdr.split('.', 1)
        else:
            pre, suf = hdr, None
        want_root = ROOT_OF_PREFIX.get(pre)
        if suf is None:
            okh = want_root is not None and path == want_root
            exp = want_root
        else:
            term = SUFFIX_SYNONYM.get(suf, suf)
            exp = f'{want_root}.{term}' if want_root else None
            if pre == 'closest' and suf == 'description':
                exp = f'{want_root}.genome.description'
            okh = exp is not None and path == exp
        rep.add('E2', ex.site(cols_node), f'column {hdr!r} reports the attribute its header names', okh, expected=exp, found=path, stmt=f'header {hdr}')
    headers = [h for h, _ in cols]
    rep.add('E2', ex.site(cols_node), 'headers are unique', len(set(headers)) == len(headers), expected='unique', found=headers, stmt='unique headers')
    doc = os.path.join(m.repo, 'docs', 'source', 'cli.rst')
    if os.path.exists(doc):
        txt = open(doc, encoding='utf-8').read()
        sec = txt[txt.find('A .csv file with one row per query'):]
        sec = sec[:sec.find('\nJSON')] if '\nJSON' in sec else sec[:3000]
        names = re.findall(r'``([a-z_]+(?:\.[a-z_]+)?)``\s*(?:-|$)', sec, flags=re.M)
        documented = {DOC_TYPOS.get(n, n) for n in names if '.' in n or n == 'query'}
        rep.add('E2', ('docs/source/cli.rst', 108, 'docs.cli.csv-columns'), 'the exported header set equals the documented column set', set(headers) == documented, expected=sorted(documented), found=sorted(headers), stmt='documented columns')
    else:
        raise Undecided('docs/source/cli.rst not found (documented CSV columns)')
    # E3: what reaches the csv writer, in which order
    fe = ex.methods['export']
    rep.functions.add(fe.qualname)
    tr = csv_trace(m, fe)
    rep.functions.update(tr['visited'])
    stream = tr['stream']
    ctor = tr['ctor']
    ctor_ids = {id(c) for c in ctor}
    file_ok = all(c.args and isinstance(c.args[0], ast.Name) and c.args[0].id in tr['files'] for c in ctor)
    opened = []
    if file_ok:
        for c in ctor:
            oc = tr['opened'].get(c.args[0].id)
            rep.require(isinstance(oc, ast.Call) and m.resolve(fe.module, oc.func) == 'gambit.util.io.maybe_open' and not any(isinstance(a, ast.Starred) for a in oc.args),
                        f'CSVResultsExporter.export: the file handed to csv.writer comes from `with {u(oc)[:60]}`, which is not a maybe_open() call the rule can evaluate')
            mode = get_arg(oc, 1, 'mode')
            opened.append(u(oc))
            file_ok = file_ok and u(get_arg(oc, 0, 'file_or_path')) == fe.params()[1] and isinstance(mode, ast.Constant) and isinstance(mode.value, str) and 'w' in mode.value
    okw = len(ctor_ids) == 1 and file_ok and not tr['raw'] and bool(stream) and tr['calls'] == tr['handled']
    rep.add('E3', fe.site(ctor[0] if ctor else None), 'rows are emitted only through csv.writer (commas, quotes, newlines, non-ASCII stay parseable)', okw, expected="every row goes through one csv.writer(f, **opts), f from maybe_open(file_or_path, 'w')",
            found=dict(writers=[u(c)[:60] for c in ctor], file=opened, rows=stream, bypassing=tr['raw']), stmt='csv writer')
    hdr_seg = ('one', 'self.get_header()')
    okh = stream.count(hdr_seg) == 1 and stream[0] == hdr_seg
    rep.add('E3', fe.site(), 'the header is written once, before the rows', okh, expected='self.get_header() as the first row, nowhere else', found=stream, stmt='header once')
    item_seg = ('each', f'self.get_row({HOLE})', f'{fe.params()[2]}.items')
    okl = [s for s in stream if s != hdr_seg] == [item_seg]
    rep.add('E3', fe.site(), 'one row per result item, in item order', okl, expected=[hdr_seg, item_seg], found=stream, stmt='row per item')
    gh, gr = ex.methods['get_header'], ex.methods['get_row']
    rep.functions.update({gh.qualname, gr.qualname})
    fg = m.func(f'{R}.getattr_nested')
    rep.functions.add(fg.qualname)
    table = {'self.COLUMNS', f'{ex.name}.COLUMNS', 'type(self).COLUMNS', 'self.__class__.COLUMNS'}
    ih = list_image(gh)
    ir = list_image(gr)
    okgh = ih['wrapper'] is None and not ih['ifs'] and u(ih['iter']) in table and u(ih['elt']) in component(ih, 0)
    okgr = ir['wrapper'] is None and not ir['ifs'] and u(ir['iter']) in table and isinstance(ir['elt'], ast.Call) and m.resolve(gr.module, ir['elt'].func) in (f'{R}.getattr_nested', fg.qualname)
    cell = None
    path_dev = None
    if okgr:
        try:
            b = bind_call(fg, ir['elt'], {}, 'get_row')
            full = {p: b.get(p, ast.Name(id=p, ctx=ast.Load())) for p in fg.params()}
            cell = [u(full[p]) for p in fg.params()]
            okgr = cell[0] == gr.params()[1] and is_const(full[fg.params()[2]], True)
        except Undecided:
            okgr = False
        if okgr and cell[1] not in component(ir, 1):
            # the path handed to getattr_nested is computed from the table row (pre-split, normalised ...): evaluate it on every row of the literal table
            path_dev = path_argument_deviation(m, gr, ir, full[fg.params()[1]], cols)
            okgr = path_dev is None
    rep.account_returns('E3', gh, ih['returns'], 'header')
    rep.account_returns('E3', gr, ir['returns'], 'row')
    rep.add('E3', gh.site(), 'header cells are the first components of COLUMNS, in table order', okgh, expected='[name for name, _ in self.COLUMNS]', found=dict(cell=u(ih['elt']), loop=f"for {u(ih['target'])} in {u(ih['iter'])}", filters=[u(x) for x in ih['ifs']], reordered_by=ih['wrapper']),
            stmt='get_header')
    rep.add('E3', gr.site(), 'row cells are the second components of COLUMNS resolved on the item, in the same order, absent values as empty cells', okgr, expected='[getattr_nested(item, attrs, pass_none=True) for _, attrs in self.COLUMNS]',
            found=dict(cell=u(ir['elt']), loop=f"for {u(ir['target'])} in {u(ir['iter'])}", filters=[u(x) for x in ir['ifs']], reordered_by=ir['wrapper'], **({'path_argument': path_dev} if path_dev else {})), stmt='get_row')
    nw, bad = check_getattr_nested(m, fg, max(3, 1 + max(len(str(p).split('.')) for _, p in cols)))
    rep.info['getattr_nested_worlds'] = nw
    rep.add('E3', fg.site(), 'a dotted path is followed attribute by attribute; None short-circuits to None only when asked', bad is None,
            expected="split('.') of a str path; for attr: if pass_none and obj is None: return None; obj = getattr(obj, attr)  (same result and same getattr calls on every chain up to the longest exported path + 1 x position of a None / falsy value x pass_none; every statement and test outcome exercised)",
            found=bad if bad is not None else f'{nw} evaluations agree', stmt='getattr_nested')
    init = ex.methods['__init__']
    rep.functions.add(init.qualname)
    nd, bad = check_default_dialect(m, init)
    rep.add('E3', init.site(), 'default dialect quotes minimally with LF line endings', bad is None, expected="without an explicit dialect: quoting=csv.QUOTE_MINIMAL, lineterminator='\\n' unless given; options given by the caller are kept",
            found=bad if bad is not None else f'{nd} option sets evaluated, all as required', stmt='csv dialect')


def registry(ci):
    """{registered class text: method FuncInfo} for `@to_json.register(X)` methods of a class."""
    out = {}
    for name, f in ci.methods.items():
        for d in f.decorators:
            if isinstance(d, ast.Call) and u(d.func) == 'to_json.register' and d.args:
                out[u(d.args[0])] = f
            elif isinstance(d, ast.Attribute) and u(d) == 'to_json.register':
                # bare form: functools.singledispatch(method).register takes the class from the first annotated parameter
                a = f.node.args
                ann = [x.annotation for x in a.posonlyargs + a.args + ([a.vararg] if a.vararg else []) + a.kwonlyargs + ([a.kwarg] if a.kwarg else []) if x.annotation is not None]
                if not ann:
                    raise Undecided(f'{f.qualname}: bare @to_json.register on a function without an annotated parameter')
                t = ann[0]
                if isinstance(t, ast.Constant) and isinstance(t.value, str):
                    out[t.value] = f
                elif isinstance(t, (ast.Name, ast.Attribute)):
                    out[u(t)] = f
                else:
                    raise Undecided(f'{f.qualname}: bare @to_json.register with the parameter annotation {u(t)[:60]}, which is not a class name')
    return out


def model_fields(m, v, param, model):
    """Entries of a dict image whose value is an attribute chain -> (fields read from the object itself, chains that do not resolve
    on the model, chains read from something else)."""
    own, bad, foreign = [], [], []
    for k, x in v.items:
        t = canon(x)
        if not (isinstance(t, str) and re.fullmatch(r'[A-Za-z_]\w*(\.[A-Za-z_]\w*)+', t)):
            continue
        ch = attr_chain(t, param)
        if ch is None:
            foreign.append(f'{k}={t}')
        elif not resolve_path(m, model, ch)[0]:
            bad.append(f'{k}={t}')
        else:
            own.append((k, ch))
    return own, bad, foreign


def check_json(ctx):
    rep, m = ctx.rep, ctx.model
    base = m.cls(f'{R}.BaseJSONResultsExporter')
    fe = base.methods['export']
    rep.functions.add(fe.qualname)
    d = [c for c in calls_in(fe.node) if u(c.func) == 'json.dump']
    wvars = [u(i.optional_vars) for s in stmts_in(fe.node.body) if isinstance(s, ast.With) for i in s.items if i.optional_vars is not None and isinstance(i.context_expr, ast.Call)
             and u(i.context_expr.func) == 'maybe_open' and u(i.context_expr.args[0]) == fe.params()[1]]
    okd = len(d) == 1 and len(wvars) == 1 and [u(a) for a in d[0].args] == [fe.params()[2], wvars[0]] and u(get_kw(d[0], 'default')) == 'self.to_json'
    rep.add('E3', fe.site(d[0] if d else None), 'JSON formats are produced by json.dump of the results with the exporter\'s to_json as the default hook (valid JSON by construction)', okd, expected='json.dump(results, f, default=self.to_json, **opts)',
            found=[u(c) for c in d], stmt='json dump')
    if d:
        rep.account_exits('E3', fe, [s_ for s_ in stmts_in(fe.node.body) if not isinstance(s_, (ast.If, ast.For, ast.While, ast.With, ast.Try)) and any(x_ is d[0] for x_ in ast.walk(s_))], 'the document is written')
    bt = base.methods['to_json']
    rb = [s for s in bt.node.body if isinstance(s, ast.Return)]
    rep.add('E3', bt.site(), 'the base conversion is the shared converter', len(rb) == 1 and u(rb[0].value) == f'gjson.to_json({bt.params()[1]})', expected='gjson.to_json(obj)', found=[u(r.value) for r in rb], stmt='base to_json')
    je = m.cls(f'{R}.JSONResultsExporter')
    reg = registry(je)
    rep.floor('E4', 'JSON exporter registrations', len(reg), 6)
    fi = reg.get('QueryResultItem')
    rep.require(fi is not None, 'JSONResultsExporter: no QueryResultItem image')
    rep.functions.add(fi.qualname)
    it = fi.params()[1]
    kw = as_dict(dict_image(rep, m, fi, 'JSON item'))
    want = {'query': f'{it}.input', 'predicted_taxon': f'{it}.report_taxon', 'next_taxon': f'{it}.classifier_result.next_taxon', 'closest_genomes': f'{it}.closest_genomes'}
    rep.add('E4', fi.site(), 'JSON item: label source, reported taxon, next taxon and closest genomes of the same item', kw == want, expected=want, found=kw, stmt='json item image')
    fin = reg.get('QueryInput')
    rep.require(fin is not None, 'JSONResultsExporter: no QueryInput image')
    rep.functions.add(fin.qualname)
    ip = fin.params()[1]
    kw = as_dict(dict_image(rep, m, fin, 'JSON query'))
    nofile = (('is', 'None', f'{ip}.file'),)
    wantq = {'name': f'{ip}.label', 'path': ('if', nofile, 'None', f'{ip}.file.path'), 'format': ('if', nofile, 'None', f'{ip}.file.format')}
    rep.add('E4', fin.site(), 'JSON query: carries the label (and the file path/format when there is a file)', all(kw.get(k) == v for k, v in wantq.items()),
            expected=wantq, found=kw, stmt='json query image')
    images = {}
    for cname, model in (('Taxon', 'gambit.db.models.Taxon'), ('AnnotatedGenome', 'gambit.db.models.AnnotatedGenome'), ('ReferenceGenomeSet', 'gambit.db.models.ReferenceGenomeSet')):
        f = reg.get(cname)
        rep.require(f is not None, f'JSONResultsExporter: no {cname} image')
        rep.functions.add(f.qualname)
        v = dict_image(rep, m, f, f'JSON {cname}')
        own, bad, foreign = model_fields(m, v, f.params()[1], model)
        images[cname] = own
        rep.add('E4', f.site(), f'JSON {cname}: every listed field is an attribute of the model and is read from the object itself', bool(own) and not bad and not foreign, expected='declared attributes',
                found=(bad + foreign) or [k for k, _ in own], stmt=f'json {cname} fields')
    fgn = reg['AnnotatedGenome']
    gp = fgn.params()[1]
    lin = dict_image(rep, m, fgn, 'JSON AnnotatedGenome').get('taxonomy')
    if lin is not None:
        le = lin
        while isinstance(le, ast.Call) and isinstance(le.func, ast.Name) and le.func.id in ('list', 'tuple') and len(le.args) == 1 and not le.keywords:
            le = le.args[0]
        rep.require(isinstance(le, ast.Call) and u(le.func) == f'{gp}.taxon.ancestors' and not any(isinstance(a, ast.Starred) for a in le.args) and all(k.arg for k in le.keywords),
                    f'JSON AnnotatedGenome: the taxonomy entry {str(canon(lin))[:80]} is not a call of the genome\'s taxon.ancestors() the rule can evaluate')
        rep.add('E4', fgn.site(), 'JSON genome: the taxonomy lineage starts at the genome\'s own taxon', is_const(get_arg(le, 0, 'incself'), True), expected=f'{gp}.taxon.ancestors(incself=True)', found=u(le), stmt='json genome lineage')
    ft = reg['Taxon']
    tf = {k for k, ch in images['Taxon'] if ch == k}
    rep.add('E4', ft.site(), 'JSON taxon carries name, rank, NCBI id and threshold (the CSV taxon columns)', {'name', 'rank', 'ncbi_id', 'distance_threshold'} <= tf, expected='name, rank, ncbi_id, distance_threshold', found=sorted(tf), stmt='json taxon columns')
    fr = reg.get('QueryResults')
    rep.require(fr is not None, 'JSONResultsExporter: no QueryResults image')
    rep.functions.add(fr.qualname)
    rv = canon(image(m, fr))
    wantr = ('minus', f'asdict({fr.params()[1]}, recurse=False)', ('params',))
    rep.add('E4', fr.site(), 'JSON results: the shallow attrs dict of the results (items kept in order), parameters omitted', rv == wantr, expected="asdict(results, recurse=False); del data['params']", found=rv, stmt='json results image')
    # GenomeMatch / ClassifierResult fall to the generic converter: distance + genome are attrs fields
    gmc = m.cls('gambit.classify.GenomeMatch')
    rep.add('E4', gmc.site(), 'closest-genome entries expose genome, distance and matched taxon (attrs fields, generic conversion)', list(gmc.annotations)[:3] == ['genome', 'distance', 'matched_taxon'], expected=['genome', 'distance', 'matched_taxon'],
            found=list(gmc.annotations), stmt='genome match fields')


# ====================================================================== archive

def local_resolver(fi):
    """expr -> expr with single-assignment locals replaced by their definitions (flow-insensitive, parameters untouched)."""
    env = {}
    params = set(fi.params())
    for s in stmts_in(fi.node.body):
        for t in assigned_targets_names(s):
            env.setdefault(t, []).append(s)
    single = {}
    for n, ds in env.items():
        if n in params or len(ds) != 1:
            continue
        v = def_value(ds[0])
        if v is not None:
            single[n] = v
    resolved = {}

    def res(name, depth=0):
        if name in resolved:
            return resolved[name]
        if depth > 6:
            raise Undecided(f'{fi.qualname}: circular local definitions at {name!r}')
        v = single[name]
        deps = {n.id for n in ast.walk(v) if isinstance(n, ast.Name) and n.id in single and n.id != name}
        e = subst(v, {d: res(d, depth + 1) for d in deps}, fi.name)
        resolved[name] = e
        return e

    def rs(e):
        deps = {n.id for n in ast.walk(e) if isinstance(n, ast.Name) and n.id in single}
        return subst(e, {d: res(d) for d in deps}, fi.name)
    return rs


def assigned_targets_names(s):
    out = []
    tg = []
    if isinstance(s, ast.Assign):
        tg = s.targets
    elif isinstance(s, (ast.AugAssign, ast.AnnAssign)):
        tg = [s.target]
    elif isinstance(s, (ast.For, ast.AsyncFor)):
        tg = [s.target]
    elif isinstance(s, (ast.With, ast.AsyncWith)):
        tg = [i.optional_vars for i in s.items if i.optional_vars is not None]
    for t in tg:
        out += [n.id for n in ast.walk(t) if isinstance(n, ast.Name) and isinstance(n.ctx, ast.Store)]
    return out


_OPTEXT = {'Eq': '==', 'NotEq': '!=', 'Lt': '<', 'LtE': '<=', 'Gt': '>', 'GtE': '>=', 'Is': 'is', 'IsNot': 'is not', 'In': 'in', 'NotIn': 'not in'}
_FLIPTEXT = {'<': '>', '<=': '>=', '>': '<', '>=': '<='}


def filter_conditions(m, module, calls):
    """Conditions of `.filter_by(k=v)` / `.filter(M.k == v, ...)` / `.where(...)` calls ->
    (equalities {(column, value text)}, comparisons of a column that are NOT equalities [text], conditions the rule cannot read [text])."""
    conds, bad, unknown = set(), [], []
    for c in calls:
        name = c.func.attr
        if name == 'filter_by':
            if c.args or any(k.arg is None for k in c.keywords):
                unknown.append(u(c)[:80])
                continue
            conds |= {(k.arg, u(k.value)) for k in c.keywords}
        elif name in ('filter', 'where'):
            if c.keywords or any(isinstance(a, ast.Starred) for a in c.args):
                unknown.append(u(c)[:80])
                continue
            for a in c.args:
                if not (isinstance(a, ast.Compare) and len(a.ops) == 1):
                    unknown.append(u(a)[:80])
                    continue
                sides = [a.left, a.comparators[0]]
                col = [x for x in sides if isinstance(x, ast.Attribute) and isinstance(x.value, ast.Name) and m.resolve(module, x.value) in m.classes]
                if len(col) != 1:
                    unknown.append(u(a)[:80])
                    continue
                other = sides[1] if col[0] is sides[0] else sides[0]
                if isinstance(a.ops[0], ast.Eq):
                    conds.add((col[0].attr, u(other)))
                else:
                    op = _OPTEXT.get(type(a.ops[0]).__name__, type(a.ops[0]).__name__)
                    if col[0] is not sides[0]:
                        op = _FLIPTEXT.get(op, op)
                    bad.append(f'{col[0].attr} {op} {u(other)}')
    return conds, bad, unknown


def query_chain(m, module, e):
    """`<session>.query(M)[.join(..)].filter_by(k=v) / .filter(M.k == v) ... .one()` ->
    dict(terminal=, conds={(column, value text)}, bad=[non-equality comparisons], unknown=[unreadable conditions]); None when e is not such a chain."""
    calls = []
    cur = e
    while isinstance(cur, ast.Call) and isinstance(cur.func, ast.Attribute):
        calls.append((cur.func.attr, cur))
        cur = cur.func.value
    calls.reverse()
    if len(calls) < 2 or calls[0][0] != 'query':
        return None
    conds, bad, unknown = filter_conditions(m, module, [c for name, c in calls[1:] if name in ('filter_by', 'filter', 'where')])
    return dict(terminal=calls[-1][0], conds=conds, bad=bad, unknown=unknown)


def is_contextmanager(m, fi):
    return any(u(d) in ('contextmanager', 'contextlib.contextmanager') or m.resolve(fi.module, d) == 'contextlib.contextmanager' for d in fi.decorators if not isinstance(d, ast.Call))


def cm_entry_stores(m, fi, call, rs):
    """`with self.M(args):` where M is a generator-based @contextmanager of the package: the attribute stores executed before
    its single yield, as {target text: value expr in the caller's terms}.  None when the callee is not such a method."""
    r = m.resolve_call(fi, call)
    tgt = m.functions.get(r)
    if tgt is None or not is_contextmanager(m, tgt):
        return None
    where = f'{fi.name} -> {tgt.name}'
    ys = [n for n in ast.walk(tgt.node) if isinstance(n, (ast.Yield, ast.YieldFrom))]
    if len(ys) != 1 or isinstance(ys[0], ast.YieldFrom):
        raise Undecided(f'{where}: context manager with {len(ys)} yield points')
    binding = {p: rs(v) for p, v in bind_call(tgt, call, {}, where, keep_identity=True).items()}
    stores = {}
    done = []

    def pre(stmts):
        for s in stmts:
            if done:
                return
            if isinstance(s, ast.Expr) and s.value is ys[0]:
                done.append(True)
                return
            if isinstance(s, ast.Try):
                pre(s.body)
                continue
            if any(n is ys[0] for n in ast.walk(s)):
                raise Undecided(f'{where}: the yield of the context manager sits under {type(s).__name__}, which the rule cannot evaluate')
            if isinstance(s, ast.Assign) and len(s.targets) == 1 and isinstance(s.targets[0], ast.Attribute):
                stores[u(s.targets[0])] = subst(s.value, binding, where)
            elif isinstance(s, ast.Assign) and len(s.targets) == 1 and isinstance(s.targets[0], ast.Name):
                binding[s.targets[0].id] = subst(s.value, binding, where)
            elif isinstance(s, ast.Pass) or (isinstance(s, ast.Expr) and isinstance(s.value, ast.Constant)):
                continue
            else:
                raise Undecided(f'{where}: statement before the yield the rule cannot evaluate: {u(s)[:80]}')
    pre(tgt.node.body)
    if not done:
        raise Undecided(f'{where}: yield of the context manager not found at statement level')
    return tgt, stores


def attr_value_during(m, fi, stmt, attr_text, rs):
    """Values stored into `attr_text` (e.g. self._current_genomeset) that are in force while `stmt` of fi runs:
    a preceding direct assignment, or the entry part of a package context manager whose `with` block contains stmt."""
    vals = []
    used = []
    for s in stmts_in(fi.node.body):
        if isinstance(s, ast.Assign) and any(u(t) == attr_text for t in s.targets) and not is_none(s.value) and s.lineno <= stmt.lineno and s is not stmt:
            vals.append((s, rs(s.value)))
    for (_, _, owner) in block_path(fi.node, stmt) or []:
        if isinstance(owner, ast.With):
            for i in owner.items:
                if isinstance(i.context_expr, ast.Call):
                    r = cm_entry_stores(m, fi, i.context_expr, rs)
                    if r is None:
                        continue
                    tgt, stores = r
                    used.append(tgt)
                    if attr_text in stores:
                        vals.append((owner, stores[attr_text]))
    return vals, used


def keys_read(fi, rs, mapping_text):
    """Constant keys a function reads from the mapping denoted by mapping_text (after local substitution): m['k'], m.get('k'), m.pop('k')."""
    out = set()
    for n in ast.walk(fi.node):
        if isinstance(n, ast.Subscript) and isinstance(n.ctx, ast.Load) and isinstance(n.slice, ast.Constant) and u(rs(n.value)) == mapping_text:
            out.add(n.slice.value)
        elif isinstance(n, ast.Call) and isinstance(n.func, ast.Attribute) and n.func.attr in ('get', 'pop') and n.args and isinstance(n.args[0], ast.Constant) and u(rs(n.func.value)) == mapping_text:
            out.add(n.args[0].value)
    return out


def check_archive(ctx):
    rep, m = ctx.rep, ctx.model
    wr = m.cls(f'{R}.ResultsArchiveWriter')
    rd = m.cls(f'{R}.ResultsArchiveReader')
    reg = registry(wr)
    fi = rd.methods['_init_converter']
    rep.functions.add(fi.qualname)
    eff = []
    image(m, fi, eff)
    conv = [e for e in eff if e[0] == 'store' and e[1] == 'self._converter']
    conv_txt = [canon(e[2]) for e in conv]
    hooks = {}
    for e in eff:
        if e[0] == 'call' and callee_attr(e[1]) == 'register_structure_hook' and len(e[1].args) == 2 and isinstance(e[1].func, ast.Attribute) \
                and u(e[1].func.value) in ['self._converter'] + [t for t in conv_txt if isinstance(t, str)]:
            hooks[u(e[1].args[0])] = u(e[1].args[1])
    rep.floor('E5', 'archive writer registrations', len(reg), 3)
    rep.add('E5', wr.site(), 'classes with a reduced (key-only) image on write == classes with a structure hook on read', set(reg) == set(hooks), expected=sorted(reg), found=sorted(hooks), stmt='registry agreement')
    rep.add('E5', fi.site(), 'the reader starts from a copy of the shared converter (all generic hooks identical on both sides)', len(conv) == 1 and conv_txt[0] == 'gjson.converter.copy()', expected='gjson.converter.copy()',
            found=conv_txt, stmt='reader converter')
    rinit = rd.methods.get('__init__')
    rep.require(rinit is not None, 'ResultsArchiveReader.__init__ not found')
    rep.functions.add(rinit.qualname)
    ieff = []
    image(m, rinit, ieff)
    installs = [u(e[1]) for e in ieff if e[0] == 'call' and m.resolve_call(rinit, e[1]) == fi.qualname]
    rep.add('E5', rinit.site(), 'every reader installs its converter (with the structure hooks) when it is constructed', len(installs) == 1, expected='self._init_converter()', found=installs, stmt='reader init')
    rf = rd.methods['results_from_json']
    rs_rf = local_resolver(rf)
    for cname, f in sorted(reg.items()):
        rep.functions.add(f.qualname)
        v = dict_image(rep, m, f, f'archive {cname}')
        obj = f.params()[1]
        fields = v.keys()
        own = [k for k, x in v.items if canon(x) == f'{obj}.{k}']
        hook = hooks.get(cname, '')
        hf = rd.methods.get(hook.replace('self.', ''))
        read_keys = set()
        if hf is not None:
            rep.functions.add(hf.qualname)
            read_keys |= keys_read(hf, local_resolver(hf), hf.params()[1])
        if cname == 'ReferenceGenomeSet':
            rep.functions.add(rf.qualname)
            read_keys |= keys_read(rf, rs_rf, f"{rf.params()[1]}['genomeset']")
            for cm in [x for s in stmts_in(rf.node.body) if isinstance(s, ast.With) for i in s.items if isinstance(i.context_expr, ast.Call) for x in [m.functions.get(m.resolve_call(rf, i.context_expr))] if x is not None]:
                rep.functions.add(cm.qualname)
        rep.add('E5', f.site(), f'archive {cname}: the key fields written are exactly the fields the reader uses to find the object again', bool(fields) and set(fields) == read_keys and own == fields, expected=sorted(f'{k}={obj}.{k}' for k in read_keys),
                found=sorted(f'{k}={canon(x)}' for k, x in v.items), stmt=f'archive {cname} keys')
    # lookups are confined to the genome set of the results
    for hname, model in (('_structure_genome', 'AnnotatedGenome'), ('_structure_taxon', 'Taxon')):
        hf = rd.methods[hname]
        rs = local_resolver(hf)
        rets = [s for s in stmts_in(hf.node.body) if isinstance(s, ast.Return) and s.value is not None]
        qs = [query_chain(m, hf.module, rs(s.value)) for s in rets]
        if not (rets and all(q is not None for q in qs)):
            # the query is not one call chain (built step by step): read every filter call of the function, the terminal from the returned expressions
            fcalls = [rs(c) for c in calls_in(hf.node) if isinstance(c.func, ast.Attribute) and c.func.attr in ('filter_by', 'filter', 'where')]
            conds, bad, unknown = filter_conditions(m, hf.module, fcalls)
            terms = {rs(s.value).func.attr if isinstance(rs(s.value), ast.Call) and isinstance(rs(s.value).func, ast.Attribute) else u(s.value)[:40] for s in rets}
            qs = [dict(terminal=t, conds=conds, bad=bad, unknown=unknown) for t in (terms or {'<no return>'})]
        unk = [x for q in qs for x in q['unknown']]
        rep.require(not unk, f'{hname}: query condition the rule cannot read: {unk[0] if unk else ""}')
        dp = hf.params()[1]
        okq = all(q['terminal'] == 'one' and not q['bad'] and ('genome_set_id', 'self._current_genomeset.id') in q['conds'] and q['conds'] & {('key', f"{dp}['key']"), ('key', f"{dp}.get('key')")} for q in qs)
        found = [dict(terminal=q['terminal'], equalities=sorted(q['conds']), other_comparisons=q['bad']) for q in qs]
        rep.add('E5', hf.site(), f'{model} is looked up by key within the genome set of the results, exactly one match required', okq, expected="filter(genome_set_id == gset.id, key == data['key']).one()", found=found, stmt=f'{hname} query')
    st = [c for c in calls_in(rf.node) if u(c.func) == 'self._converter.structure']
    rep.add('E5', rf.site(), 'the whole document is structured back into QueryResults', len(st) == 1 and [u(a) for a in st[0].args] == [rf.params()[1], 'QueryResults'], expected='self._converter.structure(data, QueryResults)', found=[u(c) for c in st],
            stmt='structure')
    # the genome set the hooks see while the document is structured
    okg = False
    found = []
    site = rf.site()
    if len(st) == 1:
        sstmt = next(s for s in stmts_in(rf.node.body) if not isinstance(s, (ast.With, ast.Try, ast.If, ast.For, ast.While)) and any(n is st[0] for n in ast.walk(s)))
        vals, used = attr_value_during(m, rf, sstmt, 'self._current_genomeset', rs_rf)
        if not vals:
            unknown = [u(i.context_expr)[:60] for (_, _, o) in block_path(rf.node, sstmt) or [] if isinstance(o, ast.With) for i in o.items
                       if not (isinstance(i.context_expr, ast.Call) and m.functions.get(m.resolve_call(rf, i.context_expr)) is not None)]
            rep.require(not unknown, f'results_from_json: the document is structured under `with {unknown[0] if unknown else ""}`, a context manager the rule cannot see into (does it set self._current_genomeset?)')
        found = [u(v) for _, v in vals]
        if len(vals) == 1:
            site = rf.site(vals[0][0])
            q = query_chain(m, rf.module, vals[0][1])
            rep.require(q is not None or not isinstance(vals[0][1], ast.Call), f'results_from_json: the value installed as self._current_genomeset ({u(vals[0][1])[:80]}) is not a session query the rule can evaluate')
            dk = f"{rf.params()[1]}['genomeset']"
            rep.require(q is None or not q['unknown'], f'results_from_json: genome set query condition the rule cannot read: {q["unknown"][0] if q and q["unknown"] else ""}')
            okg = q is not None and q['terminal'] == 'one' and not q['bad'] and q['conds'] == {('key', f"{dk}['key']"), ('version', f"{dk}['version']")}
            if q is not None and q['bad']:
                found = found + [f'not an equality: {b}' for b in q['bad']]
    rep.add('E5', site, 'the genome set is found by (key, version), exactly one match required', okg, expected='filter_by(key=..., version=...).one()', found=found, stmt='genome set lookup')
    # fields of the result graph not reduced: attrs classes handled by the generic converter on both sides
    for q in ('gambit.query.QueryResults', 'gambit.query.QueryResultItem', 'gambit.query.QueryInput', 'gambit.query.QueryParams', 'gambit.classify.ClassifierResult', 'gambit.classify.GenomeMatch'):
        ci = m.cls(q)
        is_attrs = any(isinstance(d, ast.Call) and u(d.func) == 'attrs' or u(d) == 'attrs' for d in ci.node.decorator_list)
        allattrib = all(isinstance(v, ast.Call) and u(v.func) == 'attrib' for k, v in ci.class_attrs.items() if k in ci.annotations)
        rep.add('E5', ci.site(), f'{ci.name} is an attrs class with every annotated field declared through attrib() (round-trips through the generic converter, including warnings, errors and parameters)', is_attrs and allattrib,
                expected='@attrs + attrib() fields', found=[k for k in ci.annotations if k not in ci.class_attrs], stmt=f'attrs {ci.name}')


def format_table(m, fx, domain):
    """get_exporter evaluated on a finite domain of format arguments -> {argument: ('return', value) | ('raise', exception name)}.
    The evaluation is bounded, so the caller applies the coverage side-condition (a statement never reached / a test with one outcome on
    which code hangs => Undecided) when it finds no deviation.  -> (table, uncovered)"""
    a = fx.node.args
    if len(fx.params()) != 1 or a.vararg or a.kwarg:
        raise Undecided(f'get_exporter: unexpected signature {fx.params()}')
    cov = Coverage()
    cov.enter(fx)
    out = {}
    for arg in domain:
        c = Conc(None, 'get_exporter', model=m, module=fx.module, cov=cov)
        try:
            c.run(fx.node.body, {fx.params()[0]: arg})
            out[arg] = ('return', None)
        except _Ret as r:
            out[arg] = ('return', r.v)
        except _Raise as r:
            out[arg] = ('raise', r.kind)
        except (_Brk, _Cont):
            raise Undecided('get_exporter: break / continue outside a loop')
    return out, cov.uncovered()


def check_scalars(ctx):
    rep, m = ctx.rep, ctx.model
    jm = m.module('gambit.util.json')
    site = (jm.relpath, 1, 'gambit.util.json')
    hooks = {}
    pairs = {}
    # registrations executed at import time (direct statements, or driven from literal tables)
    for n in module_effects(m, jm, lambda c: u(c.func) in ('converter.register_unstructure_hook', 'register_hooks')):
        if u(n.func) == 'converter.register_unstructure_hook' and len(n.args) == 2 and not n.keywords:
            hooks[u(n.args[0])] = (u(n.args[1]), n)
        if u(n.func) == 'register_hooks' and len(n.args) >= 3:
            pairs[u(n.args[0])] = (u(n.args[1]), u(n.args[2]))
    for n in ast.walk(jm.tree):     # registrations written inside functions of the module
        if isinstance(n, ast.Call) and u(n.func) == 'converter.register_unstructure_hook' and len(n.args) == 2 and u(n.args[0]) not in hooks and not any(isinstance(a, ast.Starred) for a in n.args):
            hooks[u(n.args[0])] = (u(n.args[1]), n)
    f = hooks.get('np.floating')
    rep.add('E6', (jm.relpath, f[1].lineno if f else 1, 'gambit.util.json'), 'NumPy floats are written with float() - an exact widening of float32, so every distance survives to the last bit', f is not None and f[0] == 'float',
            expected='float', found=f[0] if f else None, stmt='np.floating hook')
    i = hooks.get('np.integer')
    rep.add('E6', (jm.relpath, i[1].lineno if i else 1, 'gambit.util.json'), 'NumPy integers are written with int()', i is not None and i[0] == 'int', expected='int', found=i[0] if i else None, stmt='np.integer hook')
    want = {'datetime': ('datetime.isoformat', 'datetime.fromisoformat'), 'date': ('date.isoformat', 'date.fromisoformat'), 'Path': ('str', 'Path')}
    rep.add('E6', site, 'datetime, date and Path have paired write/read hooks', all(pairs.get(k) == v for k, v in want.items()), expected=want, found=pairs, stmt='paired hooks')
    fr = m.func('gambit.util.json.register_hooks')
    rep.functions.add(fr.qualname)
    src = [u(s) for s in stmts_in(fr.node.body)]
    okr = f'converter.register_unstructure_hook({fr.params()[0]}, {fr.params()[1]})' in src and any('register_structure_hook' in s for s in src)
    rep.add('E6', fr.site(), 'register_hooks installs both directions on the shared converter', okr, expected='unstructure + structure hook', found=src[:4], stmt='register_hooks')
    fd = m.func('gambit.util.json.to_json')
    rr = [s for s in fd.node.body if isinstance(s, ast.Return)]
    rep.add('E6', fd.site(), 'to_json is the shared converter\'s unstructure', len(rr) == 1 and u(rr[0].value) == f'converter.unstructure({fd.params()[0]})', expected='converter.unstructure(obj)', found=[u(r.value) for r in rr], stmt='to_json')
    fx = m.func('gambit.cli.query.get_exporter')
    rep.functions.add(fx.qualname)
    want = {'csv': Inst(ClassV(f'{R}.CSVResultsExporter')), 'json': Inst(ClassV(f'{R}.JSONResultsExporter')), 'archive': Inst(ClassV(f'{R}.ResultsArchiveWriter'))}
    tbl, unc = format_table(m, fx, list(want) + ['xml', '', 'CSV', None, 7])
    bad = {k: v for k, v in tbl.items() if (v != ('return', want[k]) if k in want else v[0] != 'raise')}
    if not bad and unc:     # a located deviation is reported as such; without one, code the domain never reaches cannot be vouched for
        raise Undecided('get_exporter: the evaluated format names do not cover the code: ' + '; '.join(unc[:3]))
    rep.add('E3', fx.site(), 'the command maps each format name to its exporter', not bad, expected={**{k: ('return', v) for k, v in want.items()}, 'anything else': ('raise', 'ValueError')}, found=bad or tbl, stmt='format table')


def check(ctx):
    rep = ctx.rep
    rep.rule('E1', 'every dotted CSV path resolves step by step against the result model tables')
    rep.rule('E2', 'header prefix <-> path root, suffix <-> terminal attribute; header set == documented set')
    rep.rule('E3', 'writing discipline for CSV and JSON; format table')
    rep.rule('E4', 'JSON images of item / query / taxon / genome / results')
    rep.rule('E5', 'archive writer/reader registries and key fields agree; attrs classes round-trip generically')
    rep.rule('E6', 'lossless scalar hooks')
    rep.trusted += ['attr.asdict(filter=...) leaves out exactly the fields the filter rejects; functools.lru_cache / cache return what the wrapped function returns; functools.singledispatch bare register takes the class from the first annotated parameter', 'cattrs structuring of annotated attrs fields', 'csv module quoting / parse-back', 'float(np.float32) is exact; json round-trips a Python float exactly (repr)']
    rep.assumptions += ['Agreement clauses only: cattrs behaviour per field type and CSV parse-back are trusted (DESIGN.md 5/C11).',
                        'getattr_nested is decided by exhaustive abstract evaluation of its body on attribute chains of length 0..(longest exported path + 1) x position of a None / of a falsy present value x pass_none x path given as dotted str / list / tuple '
                        '(result and sequence of getattr calls must equal the specification); longer chains are assumed to behave like these (the loop body does not depend on the position).',
                        'Images (rows handed to the csv writer, dicts returned by the converters, cells of a row) are computed symbolically: locals are replaced by their definitions, i.e. the expressions involved are assumed free of side effects.']
    check_csv(ctx)
    check_json(ctx)
    check_archive(ctx)
    check_scalars(ctx)
    rep.rule('E7', 'the exported result classes are plain records: what the exporters read is what the query stored (no converter / rewriting hook)')
    from ..records import check_plain_records
    check_plain_records(rep, ctx.model, 'E7', ['gambit.query.QueryResults', 'gambit.query.QueryResultItem', 'gambit.query.QueryInput', 'gambit.classify.ClassifierResult', 'gambit.classify.GenomeMatch'], 'the values the exporters write')


from ..variants import V  # noqa: E402

_R = 'src/gambit/results.py'
_J = 'src/gambit/util/json.py'
VARIANTS = [
    V('guard clause: the JSON export returns before writing (early-exit probe)', 'B', 'src/gambit/results.py', "\t\twith maybe_open(file_or_path, 'w') as f:\n\t\t\tjson.dump(results, f, default=self.to_json, **opts)", "\t\tif len(results.items) == 1:\n\t\t\treturn\n\t\twith maybe_open(file_or_path, 'w') as f:\n\t\t\tjson.dump(results, f, default=self.to_json, **opts)", 'E3'),
    V('guard clause: a single result returns after the header (early-exit probe)', 'B', 'src/gambit/results.py', "\t\t\twriter.writerow(self.get_header())\n", "\t\t\twriter.writerow(self.get_header())\n\t\t\tif len(results.items) == 1:\n\t\t\t\treturn\n", 'E3'),
    V('E: guard clause: no results -> return after the header', 'E', 'src/gambit/results.py', "\t\t\twriter.writerow(self.get_header())\n", "\t\t\twriter.writerow(self.get_header())\n\t\t\tif not results.items:\n\t\t\t\treturn\n"),
    V('guard clause: no results -> return BEFORE the header', 'B', 'src/gambit/results.py', "\t\t\twriter.writerow(self.get_header())\n", "\t\t\tif not results.items:\n\t\t\t\treturn\n\t\t\twriter.writerow(self.get_header())\n", 'E3'),
    V('next.rank reports the name', 'B', _R, "('next.rank', 'classifier_result.next_taxon.rank'),", "('next.rank', 'classifier_result.next_taxon.name'),", 'E2'),
    V('closest.description from the primary match', 'B', _R, "('closest.description', 'classifier_result.closest_match.genome.description'),", "('closest.description', 'classifier_result.primary_match.genome.description'),", 'E2'),
    V('path step renamed in COLUMNS only', 'B', _R, "('predicted.name', 'report_taxon.name'),", "('predicted.name', 'reported_taxon.name'),", 'E1'),
    V('Taxon structure hook dropped', 'B', _R, "\t\tself._converter.register_structure_hook(Taxon, self._structure_taxon)\n", "", 'E5'),
    V('float hook rounds', 'B', _J, "converter.register_unstructure_hook(np.floating, float)", "converter.register_unstructure_hook(np.floating, lambda x: round(float(x), 6))", 'E6'),
    V('manual comma join', 'B', _R, "\t\t\t\twriter.writerow(self.get_row(item))", "\t\t\t\tf.write(','.join(map(str, self.get_row(item))) + '\\n')", 'E3'),
    V('predicted.* from the raw predicted taxon', 'B', _R, "('predicted.rank', 'report_taxon.rank'),", "('predicted.rank', 'classifier_result.predicted_taxon.rank'),", 'E2'),
    V('json predicted taxon from classifier', 'B', _R, "\t\t\tpredicted_taxon=item.report_taxon,", "\t\t\tpredicted_taxon=item.classifier_result.predicted_taxon,", 'E4'),
    V('archive taxon written by name, read by key', 'B', _R, "\t\treturn _todict(taxon, ['key'])\n\n\t@to_json.register(AnnotatedGenome)\n\tdef _genome_to_json(self, genome: AnnotatedGenome):\n\t\treturn _todict(genome, ['key'])",
      "\t\treturn _todict(taxon, ['name'])\n\n\t@to_json.register(AnnotatedGenome)\n\tdef _genome_to_json(self, genome: AnnotatedGenome):\n\t\treturn _todict(genome, ['key'])", 'E5'),
    V('genome set version not written', 'B', _R, "return _todict(gset, ['key', 'version'])", "return _todict(gset, ['key'])", 'E5'),
    V('column dropped', 'B', _R, "\t\t('next.threshold', 'classifier_result.next_taxon.distance_threshold'),\n", "", 'E'),
    V('pass_none off (absent taxon crashes / not empty)', 'B', _R, "getattr_nested(item, attrs, pass_none=True)", "getattr_nested(item, attrs)", 'E3'),
    V('header and row built from different orders', 'B', _R, "return [name for name, _ in self.COLUMNS]", "return sorted(name for name, _ in self.COLUMNS)", 'E3'),
    V('json query label from the file path', 'B', _R, "\t\t\tname=input.label,", "\t\t\tname=str(input.file),", 'E4'),
    V('E: model attribute reordering irrelevant', 'E', _R, "\t\t('query', 'input.label'),\n", "\t\t('query', 'input.label'),  # label\n"),
]

# ---- idioms accepted since the rules decide on images (row stream / dict image / list image / finite-domain evaluation): each E form has a broken twin
_EXPORT = "\t\t\twriter = csv.writer(f, **self.format_opts)\n\n\t\t\twriter.writerow(self.get_header())\n\t\t\tfor item in results.items:\n\t\t\t\twriter.writerow(self.get_row(item))\n"
_GEN = "\t\t\tcsv.writer(f, **self.format_opts).writerows(self._all_rows(results))\n\n\tdef _all_rows(self, res):\n%s"
_NESTED = "\tif isinstance(attrs, str):\n\t\tattrs = attrs.split('.')\n\n\tfor attr in attrs:\n\t\tif pass_none and obj is None:\n\t\t\treturn None\n\n\t\tobj = getattr(obj, attr)\n\n\treturn obj\n"
_UNSWITCHED = "\tnames = attrs.split('.') if isinstance(attrs, str) else attrs\n\tif %s:\n\t\tfor name in names:\n\t\t\tobj = getattr(obj, name)\n\t\treturn obj\n\tfor name in names:\n%s\treturn obj\n"
_ROW = "\t\treturn [getattr_nested(item, attrs, pass_none=True) for _, attrs in self.COLUMNS]\n"
_ITEM = "\t\treturn dict(\n\t\t\tquery=item.input,\n\t\t\tpredicted_taxon=item.report_taxon,\n\t\t\tnext_taxon=item.classifier_result.next_taxon,\n\t\t\tclosest_genomes=item.closest_genomes,\n\t\t)\n"
_INPUT = "\t\treturn dict(\n\t\t\tname=input.label,\n\t\t\tpath=None if input.file is None else input.file.path,\n\t\t\tformat=None if input.file is None else input.file.format,\n\t\t)\n"
_INPUT2 = "\t\tdata = {'name': input.label, 'path': None, 'format': None}\n\t\tfile = input.file\n\t\tif file is not None:\n\t\t\tdata['path'] = file.%s\n\t\t\tdata['format'] = file.%s\n\t\treturn data\n"
_TAXON = "\t\treturn _todict(taxon, ['id', 'key', 'name', 'ncbi_id', 'rank', 'distance_threshold'])\n"
_TAXON2 = "\t\treturn _todict(taxon, self._TAXON_ATTRS)\n\n\t_TAXON_ATTRS = ('id', 'key', 'name', %s, 'rank', 'distance_threshold')\n"
_GENOME = "\t\tdata = _todict(genome, ['key', 'description', 'organism', 'ncbi_db', 'ncbi_id', 'genbank_acc', 'refseq_acc'])\n\t\tdata['id'] = genome.genome_id\n\t\tdata['taxonomy'] = list(genome.taxon.ancestors(incself=True))\n\t\treturn data\n"
_GENOME2 = "\t\treturn dict(\n\t\t\t_todict(genome, ['key', 'description', 'organism', 'ncbi_db', 'ncbi_id', 'genbank_acc', 'refseq_acc']),\n\t\t\tid=genome.%s,\n\t\t\ttaxonomy=list(genome.taxon.ancestors(incself=True)),\n\t\t)\n"
_HOOKS = "\t\tself._converter.register_structure_hook(ReferenceGenomeSet, self._structure_genomeset)\n\t\tself._converter.register_structure_hook(AnnotatedGenome, self._structure_genome)\n\t\tself._converter.register_structure_hook(Taxon, self._structure_taxon)\n"
_HOOKS2 = "\t\thooks = [\n\t\t\t(ReferenceGenomeSet, self._structure_genomeset),\n\t\t\t(AnnotatedGenome, self._structure_genome),\n%s\t\t]\n\t\tfor cls, hook in hooks:\n\t\t\tself._converter.register_structure_hook(cls, hook)\n"
_LOAD = "\t\tgset_key = data['genomeset']['key']\n\t\tgset_version = data['genomeset']['version']\n\t\tself._current_genomeset =  self.session.query(ReferenceGenomeSet) \\\n\t\t\t.filter_by(key=gset_key, version=gset_version) \\\n\t\t\t.one()\n\n\t\ttry:\n\t\t\treturn self._converter.structure(data, QueryResults)\n\n\t\tfinally:\n\t\t\tself._current_genomeset = None\n"
_LOAD2 = "\t\tgset_data = data['genomeset']\n\t\tgset = self.session.query(ReferenceGenomeSet).filter_by(%s).one()\n\t\twith self._using_genomeset(gset):\n\t\t\treturn self._converter.structure(data, QueryResults)\n\n\t@contextmanager\n\tdef _using_genomeset(self, gset):\n%s\t\ttry:\n\t\t\tyield\n\t\tfinally:\n\t\t\tself._current_genomeset = None\n"
_CM_IMPORT = ((_R, "import csv\n", "import csv\nfrom contextlib import contextmanager\n"),)
_TAXQ = "\t\treturn self.session.query(Taxon).filter_by(genome_set_id=gset_id, key=key).one()"
VARIANTS += [
    # E3 row stream
    V('E: rows from a lazy generator method through writerows', 'E', _R, _EXPORT, _GEN % "\t\tyield self.get_header()\n\t\tyield from map(self.get_row, res.items)\n"),
    V('generator method yields the header after the rows', 'B', _R, _EXPORT, _GEN % "\t\tyield from map(self.get_row, res.items)\n\t\tyield self.get_header()\n", 'E3'),
    V('generator method walks the items backwards', 'B', _R, _EXPORT, _GEN % "\t\tyield self.get_header()\n\t\tyield from map(self.get_row, reversed(res.items))\n", 'E3'),
    V('generator method skips items without prediction', 'B', _R, _EXPORT, _GEN % "\t\tyield self.get_header()\n\t\tfor item in res.items:\n\t\t\tif item.report_taxon is not None:\n\t\t\t\tyield self.get_row(item)\n", 'E3'),
    V('E: writerows over a generator expression', 'E', _R, "\t\t\tfor item in results.items:\n\t\t\t\twriter.writerow(self.get_row(item))\n", "\t\t\twriter.writerows(self.get_row(item) for item in results.items)\n"),
    V('writerows over a filtered generator expression', 'B', _R, "\t\t\tfor item in results.items:\n\t\t\t\twriter.writerow(self.get_row(item))\n", "\t\t\twriter.writerows(self.get_row(item) for item in results.items if item.report_taxon is not None)\n", 'E3'),
    V('E: row bound to a local before it is written', 'E', _R, "\t\t\t\twriter.writerow(self.get_row(item))\n", "\t\t\t\trow = self.get_row(item)\n\t\t\t\twriter.writerow(row)\n"),
    V('row local built from the first item', 'B', _R, "\t\t\t\twriter.writerow(self.get_row(item))\n", "\t\t\t\trow = self.get_row(results.items[0])\n\t\t\t\twriter.writerow(row)\n", 'E3'),
    V('header repeated for every item', 'B', _R, "\t\t\t\twriter.writerow(self.get_row(item))\n", "\t\t\t\twriter.writerow(self.get_header())\n", 'E3'),
    V('rows only written for predicted items', 'B', _R, "\t\t\t\twriter.writerow(self.get_row(item))\n", "\t\t\t\tif item.report_taxon is not None:\n\t\t\t\t\twriter.writerow(self.get_row(item))\n", 'E3'),
    # E3 getattr_nested decided by evaluation on a finite domain
    V('E: getattr_nested loop-unswitched, break instead of return None', 'E', _R, _NESTED, _UNSWITCHED % ("not pass_none", "\t\tif obj is None:\n\t\t\tbreak\n\t\tobj = getattr(obj, name)\n")),
    V('unswitched getattr_nested tests None after the step', 'B', _R, _NESTED, _UNSWITCHED % ("not pass_none", "\t\tobj = getattr(obj, name)\n\t\tif obj is None:\n\t\t\tbreak\n"), 'E3'),
    V('unswitched getattr_nested with the flag inverted', 'B', _R, _NESTED, _UNSWITCHED % ("pass_none", "\t\tif obj is None:\n\t\t\tbreak\n\t\tobj = getattr(obj, name)\n"), 'E3'),
    V('E: getattr_nested with a guard clause per step', 'E', _R, "\t\tif pass_none and obj is None:\n\t\t\treturn None\n\n\t\tobj = getattr(obj, attr)\n", "\t\tif obj is not None or not pass_none:\n\t\t\tobj = getattr(obj, attr)\n\t\t\tcontinue\n\t\treturn None\n"),
    V('getattr_nested stops at any falsy value', 'B', _R, "\t\tif pass_none and obj is None:\n", "\t\tif pass_none and not obj:\n", 'E3', also=()),
    V('getattr_nested follows the path backwards', 'B', _R, "\tfor attr in attrs:\n", "\tfor attr in attrs[::-1]:\n", 'E3'),
    # E3 list images
    V('E: row built by an append loop with a local', 'E', _R, _ROW, "\t\trow = []\n\t\tfor _, attrs in self.COLUMNS:\n\t\t\tvalue = getattr_nested(item, attrs, pass_none=True)\n\t\t\trow.append(value)\n\t\treturn row\n"),
    V('append loop resolves the header component', 'B', _R, _ROW, "\t\trow = []\n\t\tfor name, attrs in self.COLUMNS:\n\t\t\tvalue = getattr_nested(item, name, pass_none=True)\n\t\t\trow.append(value)\n\t\treturn row\n", 'E3'),
    V('append loop without pass_none', 'B', _R, _ROW, "\t\trow = []\n\t\tfor _, attrs in self.COLUMNS:\n\t\t\tvalue = getattr_nested(item, attrs)\n\t\t\trow.append(value)\n\t\treturn row\n", 'E3'),
    V('E: header cells by index', 'E', _R, "return [name for name, _ in self.COLUMNS]", "return [col[0] for col in self.COLUMNS]"),
    V('header cells by the wrong index', 'B', _R, "return [name for name, _ in self.COLUMNS]", "return [col[1] for col in self.COLUMNS]", 'E3'),
    # E4 dict images
    V('E: json item as a dict literal', 'E', _R, _ITEM, "\t\treturn {\n\t\t\t'query': item.input,\n\t\t\t'predicted_taxon': item.report_taxon,\n\t\t\t'next_taxon': item.classifier_result.next_taxon,\n\t\t\t'closest_genomes': item.closest_genomes,\n\t\t}\n"),
    V('json item literal: next taxon is the predicted one', 'B', _R, _ITEM, "\t\treturn {\n\t\t\t'query': item.input,\n\t\t\t'predicted_taxon': item.report_taxon,\n\t\t\t'next_taxon': item.classifier_result.predicted_taxon,\n\t\t\t'closest_genomes': item.closest_genomes,\n\t\t}\n", 'E4'),
    V('E: json query filled in an if block', 'E', _R, _INPUT, _INPUT2 % ('path', 'format')),
    V('json query if block swaps path and format', 'B', _R, _INPUT, _INPUT2 % ('format', 'path'), 'E4'),
    V('json query if block tests the label', 'B', _R, _INPUT, (_INPUT2 % ('path', 'format')).replace("if file is not None:", "if input.label is not None:"), 'E4'),
    V('E: taxon field list hoisted into a class constant', 'E', _R, _TAXON, _TAXON2 % "'ncbi_id'"),
    V('hoisted taxon field list names a non-attribute', 'B', _R, _TAXON, _TAXON2 % "'taxid'", 'E4'),
    V('hoisted taxon field list loses the rank', 'B', _R, _TAXON, (_TAXON2 % "'ncbi_id'").replace(" 'rank',", ""), 'E4'),
    V('E: genome image in one dict() expression', 'E', _R, _GENOME, _GENOME2 % 'genome_id'),
    V('genome image reads an id the model does not have', 'B', _R, _GENOME, _GENOME2 % 'id', 'E4'),
    V('E: params removed with pop', 'E', _R, "\t\tdel data['params']", "\t\tdata.pop('params')"),
    V('items removed instead of params', 'B', _R, "\t\tdel data['params']", "\t\tdata.pop('items')", 'E4'),
    # E5 archive
    V('E: archive key images as dict literals', 'E', _R, "return _todict(gset, ['key', 'version'])", "return {'key': gset.key, 'version': gset.version}"),
    V('archive literal stores the name under key', 'B', _R, "return _todict(gset, ['key', 'version'])", "return {'key': gset.name, 'version': gset.version}", 'E5'),
    V('archive literal forgets the version', 'B', _R, "return _todict(gset, ['key', 'version'])", "return {'key': gset.key}", 'E5'),
    V('E: structure hooks registered from a table', 'E', _R, _HOOKS, _HOOKS2 % "\t\t\t(Taxon, self._structure_taxon),\n"),
    V('hook table lacks the Taxon row', 'B', _R, _HOOKS, _HOOKS2 % "", 'E5'),
    V('E: genome set installed by a context manager', 'E', _R, _LOAD, _LOAD2 % ("key=gset_data['key'], version=gset_data['version']", "\t\tself._current_genomeset = gset\n"), also=_CM_IMPORT),
    V('context manager never installs the genome set', 'B', _R, _LOAD, _LOAD2 % ("key=gset_data['key'], version=gset_data['version']", ""), 'E5', also=_CM_IMPORT),
    V('context manager form looks the genome set up by key only', 'B', _R, _LOAD, _LOAD2 % ("key=gset_data['key']", "\t\tself._current_genomeset = gset\n"), 'E5', also=_CM_IMPORT),
    V('E: taxon looked up with filter() expressions', 'E', _R, _TAXQ, "\t\treturn self.session.query(Taxon).filter(Taxon.genome_set_id == gset_id, Taxon.key == key).one()"),
    V('filter() form not confined to the genome set', 'B', _R, _TAXQ, "\t\treturn self.session.query(Taxon).filter(Taxon.key == key).one()", 'E5'),
    V('filter() form takes the first match', 'B', _R, _TAXQ, "\t\treturn self.session.query(Taxon).filter(Taxon.genome_set_id == gset_id, Taxon.key == key).first()", 'E5'),
]

# ---- second held-out corpus + mutation probe: registrations driven from tables, bare singledispatch registration, asdict filter, pre-split paths through a
# cached helper, option defaults by membership test, query conditions must be equalities, file opened through maybe_open, reader constructor, lineage
_REG = "# Python builtins\nregister_hooks(datetime, datetime.isoformat, datetime.fromisoformat)\nregister_hooks(date, date.isoformat, date.fromisoformat)\nregister_hooks(Path, str, Path)\n\n# Numpy scalars\nconverter.register_unstructure_hook(np.integer, int)\nconverter.register_unstructure_hook(np.floating, float)\n"
_REG2 = "for _hooks in [\n\t(datetime, datetime.isoformat, datetime.fromisoformat),\n\t(date, date.isoformat, date.fromisoformat),\n\t(Path, %s),\n]:\n\tregister_hooks(*_hooks)\n\nfor _hooks in [(np.integer, int), %s]:\n\tconverter.register_unstructure_hook(*_hooks)\n\ndel _hooks\n"
_ARCH_TAXON = "\t@to_json.register(Taxon)\n\tdef _taxon_to_json(self, taxon: Taxon):\n\t\treturn _todict(taxon, ['key'])\n"
_RESULTS = "\t\tdata = asdict(results, recurse=False)\n\t\tdel data['params']  # Parameters not currently exposed thru CLI, so omit for now.\n\t\treturn data\n"
_RESULTS2 = "\t\treturn asdict(results, recurse=False, filter=lambda field, value: field.name %s)\n"
_LRU = ((_R, "from functools import singledispatchmethod\n", "from functools import singledispatchmethod, lru_cache\n"),)
_SPLIT_HELPER = "@lru_cache(maxsize=None)\ndef _split_path(path):\n\treturn tuple(path.split(%s))\n\n\n"
_CSV_CLASS = "class CSVResultsExporter(AbstractResultsExporter):\n"
_ROW2 = "\t\trow = []\n\t\tfor _, attrs in self.COLUMNS:\n\t\t\tpath = _split_path(attrs) if type(attrs) is str else attrs\n\t\t\trow.append(getattr_nested(item, path, pass_none=True))\n\t\treturn row\n"
_NESTED_HEAD = "\tif isinstance(attrs, str):\n\t\tattrs = attrs.split('.')\n"
_DIALECT = "\t\tif 'dialect' not in format_opts:\n\t\t\tformat_opts.setdefault('lineterminator', '\\n')\n\t\t\tformat_opts.setdefault('quoting', csv.QUOTE_MINIMAL)\n\t\tself.format_opts = format_opts\n"
_DIALECT2 = "\t\tself.format_opts = format_opts\n\t\tif 'dialect' in format_opts:\n\t\t\treturn\n\t\tfor name, default in [('lineterminator', %s), ('quoting', csv.QUOTE_MINIMAL)]:\n%s\t\t\tformat_opts[name] = default\n"
_GENQ = "\t\t\t.filter(AnnotatedGenome.genome_set_id == gset_id, Genome.key == key)\\\n"
_GSETQ = "\t\t\t.filter_by(key=gset_key, version=gset_version) \\\n"
_INPUT3 = "\t\tfile = input.file\n\t\tif file is None:\n\t\t\tpath = fmt = None\n\t\telse:\n\t\t\tpath, fmt = %s\n\t\treturn dict(name=input.label, path=path, format=fmt)\n"
_LOOP = "\t\t\tfor item in results.items:\n\t\t\t\twriter.writerow(self.get_row(item))\n"
VARIANTS += [
    # E6 registrations executed at import time, driven from literal tables
    V('E: scalar hooks registered from two literal tables', 'E', _J, _REG, _REG2 % ("str, Path", "(np.floating, float)")),
    V('hook table rounds numpy floats', 'B', _J, _REG, _REG2 % ("str, Path", "(np.floating, lambda x: round(float(x), 6))"), 'E6'),
    V('hook table lacks the numpy float row', 'B', _J, _REG, _REG2 % ("str, Path", "(np.bool_, bool)"), 'E6'),
    V('hook table swaps the Path pair', 'B', _J, _REG, _REG2 % ("Path, str", "(np.floating, float)"), 'E6'),
    # E4/E5 registry: bare @to_json.register takes the class from the annotation
    V('E: bare singledispatch registration (class from the annotation)', 'E', _R, _ARCH_TAXON, _ARCH_TAXON.replace("@to_json.register(Taxon)", "@to_json.register")),
    V('bare registration with the annotation of another class', 'B', _R, _ARCH_TAXON, _ARCH_TAXON.replace("@to_json.register(Taxon)", "@to_json.register").replace("taxon: Taxon", "taxon: Genome"), 'E5'),
    # E4 results image: exclusion by asdict filter
    V('E: params excluded by an asdict filter', 'E', _R, _RESULTS, _RESULTS2 % "!= 'params'"),
    V('asdict filter excludes the items', 'B', _R, _RESULTS, _RESULTS2 % "!= 'items'", 'E4'),
    V('asdict filter keeps only the params', 'B', _R, _RESULTS, _RESULTS2 % "== 'params'", 'E4'),
    # E3 path handed to getattr_nested computed from the table row / helper evaluated through its definition
    V('E: row paths pre-split through a cached helper', 'E', _R, _ROW, _ROW2, also=_LRU + ((_R, _CSV_CLASS, (_SPLIT_HELPER % "'.'") + _CSV_CLASS),)),
    V('cached helper splits on the wrong separator', 'B', _R, _ROW, _ROW2, 'E3', also=_LRU + ((_R, _CSV_CLASS, (_SPLIT_HELPER % "','") + _CSV_CLASS),)),
    V('pre-split path drops its last attribute', 'B', _R, _ROW, _ROW2.replace("_split_path(attrs) if", "_split_path(attrs)[:-1] if"), 'E3', also=_LRU + ((_R, _CSV_CLASS, (_SPLIT_HELPER % "'.'") + _CSV_CLASS),)),
    V('E: getattr_nested splits through a cached helper', 'E', _R, _NESTED_HEAD, "\tif isinstance(attrs, str):\n\t\tattrs = _split_path(attrs)\n", also=_LRU + ((_R, "def getattr_nested(", (_SPLIT_HELPER % "'.'") + "def getattr_nested("),)),
    V('cached helper of getattr_nested splits once only', 'B', _R, _NESTED_HEAD, "\tif isinstance(attrs, str):\n\t\tattrs = _split_path(attrs)\n", 'E3', also=_LRU + ((_R, "def getattr_nested(", (_SPLIT_HELPER % "'.', 1") + "def getattr_nested("),)),
    V('getattr_nested splits what is not a string', 'B', _R, "\tif isinstance(attrs, str):\n", "\tif not isinstance(attrs, str):\n", 'E3'),
    # E3 default dialect decided by evaluation
    V('E: dialect defaults by guard clause and membership test', 'E', _R, _DIALECT, _DIALECT2 % ("'\\n'", "\t\t\tif name not in format_opts:\n\t")),
    V('membership test inverted', 'B', _R, _DIALECT, _DIALECT2 % ("'\\n'", "\t\t\tif name in format_opts:\n\t"), 'E3'),
    V('defaults override the options given', 'B', _R, _DIALECT, _DIALECT2 % ("'\\n'", ""), 'E3'),
    V('default line terminator CRLF', 'B', _R, _DIALECT, _DIALECT2 % ("'\\r\\n'", "\t\t\tif name not in format_opts:\n\t"), 'E3'),
    V('explicit dialect test inverted', 'B', _R, "\t\tif 'dialect' not in format_opts:\n", "\t\tif 'dialect' in format_opts:\n", 'E3'),
    # E5 query conditions are equalities (mutation probe)
    V('genome looked up by a key inequality', 'B', _R, _GENQ, _GENQ.replace("Genome.key == key", "Genome.key != key"), 'E5'),
    V('genome looked up outside the genome set', 'B', _R, _GENQ, _GENQ.replace("genome_set_id == gset_id", "genome_set_id != gset_id"), 'E5'),
    V('taxon filter() form with a key inequality', 'B', _R, _TAXQ, "\t\treturn self.session.query(Taxon).filter(Taxon.genome_set_id == gset_id, Taxon.key != key).one()", 'E5'),
    V('E: genome set looked up with filter() expressions', 'E', _R, _GSETQ, "\t\t\t.filter(ReferenceGenomeSet.key == gset_key, ReferenceGenomeSet.version == gset_version) \\\n"),
    V('genome set looked up by a version inequality', 'B', _R, _GSETQ, "\t\t\t.filter(ReferenceGenomeSet.key == gset_key, ReferenceGenomeSet.version != gset_version) \\\n", 'E5'),
    V('E: genome query built step by step', 'E', _R, "\t\treturn self.session.query(AnnotatedGenome)\\\n\t\t\t.join(Genome)\\\n" + _GENQ + "\t\t\t.one()", "\t\tq = self.session.query(AnnotatedGenome).join(Genome)\n\t\tq = q.filter(AnnotatedGenome.genome_set_id == gset_id)\n\t\tq = q.filter(Genome.key == key)\n\t\treturn q.one()"),
    V('step by step genome query with an inequality', 'B', _R, "\t\treturn self.session.query(AnnotatedGenome)\\\n\t\t\t.join(Genome)\\\n" + _GENQ + "\t\t\t.one()", "\t\tq = self.session.query(AnnotatedGenome).join(Genome)\n\t\tq = q.filter(AnnotatedGenome.genome_set_id == gset_id)\n\t\tq = q.filter(Genome.key != key)\n\t\treturn q.one()", 'E5'),
    # E4 query image through locals and one if/else
    V('E: json query through locals and one if/else', 'E', _R, _INPUT, _INPUT3 % "file.path, file.format"),
    V('json query locals unpacked in the wrong order', 'B', _R, _INPUT, _INPUT3 % "file.format, file.path", 'E4'),
    # E3 row stream: writerows(map(...)) next to a writerow header
    V('E: item rows through writerows(map(...))', 'E', _R, _LOOP, "\t\t\twriter.writerows(map(self.get_row, results.items))\n"),
    V('writerows(map(...)) skips the first item', 'B', _R, _LOOP, "\t\t\twriter.writerows(map(self.get_row, results.items[1:]))\n", 'E3'),
    # mutation probe: file of the csv writer, reader constructor, lineage
    V('csv file opened with swapped arguments', 'B', _R, "\t\twith maybe_open(file_or_path, 'w') as f:\n\t\t\twriter = csv.writer", "\t\twith maybe_open('w', file_or_path) as f:\n\t\t\twriter = csv.writer", 'E3'),
    V('csv file opened for reading', 'B', _R, "\t\twith maybe_open(file_or_path, 'w') as f:\n\t\t\twriter = csv.writer", "\t\twith maybe_open(file_or_path) as f:\n\t\t\twriter = csv.writer", 'E3'),
    V('reader constructed without its converter', 'B', _R, "\t\tself._init_converter()\n", "", 'E5'),
    V('json genome lineage without the genome\'s own taxon', 'B', _R, "genome.taxon.ancestors(incself=True)", "genome.taxon.ancestors(incself=False)", 'E4'),
    V('getattr_nested gives up on paths longer than four attributes (code the small domain would never reach)', 'B', _R, _NESTED_HEAD, _NESTED_HEAD + "\tif len(attrs) > 4:\n\t\treturn None\n", 'E3'),
    V('E: lineage flag passed positionally', 'E', _R, "genome.taxon.ancestors(incself=True)", "genome.taxon.ancestors(True)"),
]

# ---- third held-out corpus: a helper moved to another module and imported back (N13), the format if-chain as a dispatch table (decided by evaluation)
_M = 'src/gambit/util/misc.py'
_Q = 'src/gambit/cli/query.py'
_NESTED_DEF = "def getattr_nested(obj, attrs: Union[str, Iterable[str]], pass_none=False):\n" + _NESTED
_MOVED = "\n\ndef getattr_nested(obj, attrs, pass_none=False):\n\tif isinstance(attrs, str):\n\t\tattrs = attrs.split('.')\n\tfor attr in attrs:\n%s\treturn obj\n"
_MISC_ANCHOR = "T = TypeVar('T')\n"
_CHAIN = "\tif outfmt == 'csv':\n\t\treturn CSVResultsExporter()\n\n\tif outfmt == 'json':\n\t\treturn JSONResultsExporter()\n\n\tif outfmt == 'archive':\n\t\treturn ResultsArchiveWriter()\n\n\traise ValueError(f'Invalid output format: {outfmt!r}')\n"
_TABLE = "\texporter_cls = EXPORTERS.get(outfmt) if %sisinstance(outfmt, str) else None\n\tif exporter_cls is None:\n\t\traise ValueError(f'Invalid output format: {outfmt!r}')\n\treturn exporter_cls()\n"
_TABLE_DEF = "EXPORTERS = {\n\t'csv': CSVResultsExporter,\n\t'json': %s,\n\t'archive': ResultsArchiveWriter,\n}\n\n\ndef get_exporter(outfmt: str):\n"
VARIANTS += [
    V('E: getattr_nested moved to gambit.util.misc and imported back', 'E', _R, _NESTED_DEF, "from gambit.util.misc import getattr_nested\n",
      also=((_M, _MISC_ANCHOR, _MISC_ANCHOR + _MOVED % "\t\tif pass_none and obj is None:\n\t\t\treturn None\n\t\tobj = getattr(obj, attr)\n"),)),
    V('moved getattr_nested tests None after the step', 'B', _R, _NESTED_DEF, "from gambit.util.misc import getattr_nested\n", 'E3',
      also=((_M, _MISC_ANCHOR, _MISC_ANCHOR + _MOVED % "\t\tobj = getattr(obj, attr)\n\t\tif pass_none and obj is None:\n\t\t\treturn None\n"),)),
    V('E: format names through a dispatch table', 'E', _Q, _CHAIN, _TABLE % "", also=((_Q, "def get_exporter(outfmt: str):\n", _TABLE_DEF % "JSONResultsExporter"),)),
    V('dispatch table maps json to the archive writer', 'B', _Q, _CHAIN, _TABLE % "", 'E3', also=((_Q, "def get_exporter(outfmt: str):\n", _TABLE_DEF % "ResultsArchiveWriter"),)),
    V('dispatch table guarded by the inverted type test', 'B', _Q, _CHAIN, _TABLE % "not ", 'E3', also=((_Q, "def get_exporter(outfmt: str):\n", _TABLE_DEF % "JSONResultsExporter"),)),
    V('if chain returns the archive writer for json', 'B', _Q, "\tif outfmt == 'json':\n\t\treturn JSONResultsExporter()\n", "\tif outfmt == 'json':\n\t\treturn ResultsArchiveWriter()\n", 'E3'),
    V('if chain falls through without an exporter for archive', 'B', _Q, "\tif outfmt == 'archive':\n\t\treturn ResultsArchiveWriter()\n", "\tif outfmt == 'archive':\n\t\tpass\n", 'E3'),
]

# ---- pass 4: COLUMNS generated at class-definition time from shared literal tables (E1/E2 apply to the evaluated table)
_PRED_GROUP = "\t\t('predicted.name', 'report_taxon.name'),\n\t\t('predicted.rank', 'report_taxon.rank'),\n\t\t('predicted.ncbi_id', 'report_taxon.ncbi_id'),\n\t\t('predicted.threshold', 'report_taxon.distance_threshold'),\n"
_NEXT_GROUP = "\t\t('next.name', 'classifier_result.next_taxon.name'),\n\t\t('next.rank', 'classifier_result.next_taxon.rank'),\n\t\t('next.ncbi_id', 'classifier_result.next_taxon.ncbi_id'),\n\t\t('next.threshold', 'classifier_result.next_taxon.distance_threshold'),\n"
_TAXCOLS = "_TAXON_COLUMNS = [\n\t('name', 'name'),\n%s\t('ncbi_id', 'ncbi_id'),\n\t('threshold', %s),\n]\n\n\ndef _taxon_columns(prefix, attrs):\n\treturn [(f'{prefix}.{name}', f'{attrs}.{attr}') for name, attr in _TAXON_COLUMNS]\n\n\n"


def _generated(pred_root, rank_row="\t('rank', 'rank'),\n", thr="'distance_threshold'"):
    return dict(old=_PRED_GROUP, new=f"\t\t*_taxon_columns('predicted', '{pred_root}'),\n",
                also=((_R, _NEXT_GROUP, "\t\t*_taxon_columns('next', 'classifier_result.next_taxon'),\n"), (_R, _CSV_CLASS, (_TAXCOLS % (rank_row, thr)) + _CSV_CLASS)))


_CONCAT = ("\tCOLUMNS = [('query', 'input.label')] + [('predicted.' + n, 'report_taxon.' + a) for n, a in _TAXON_COLUMNS] + [\n"
           "\t\t('closest.distance', 'classifier_result.closest_match.distance'),\n\t\t('closest.description', 'classifier_result.closest_match.genome.description'),\n"
           "\t] + [('.'.join(['next', n]), 'classifier_result.%s.' + a) for n, a in _TAXON_COLUMNS]\n")
_COLUMNS_LITERAL = "\tCOLUMNS = [\n\t\t('query', 'input.label'),\n" + _PRED_GROUP + "\t\t('closest.distance', 'classifier_result.closest_match.distance'),\n\t\t('closest.description', 'classifier_result.closest_match.genome.description'),\n" + _NEXT_GROUP + "\t]\n"
VARIANTS += [
    V('E: taxon column groups generated by a helper from a shared table', 'E', _R, **_generated('report_taxon')),
    V('generated predicted.* group reads the raw predicted taxon (seed C11d)', 'B', _R, expect='E2', **_generated('classifier_result.predicted_taxon')),
    V('shared taxon table pairs threshold with the NCBI id', 'B', _R, expect='E2', **_generated('report_taxon', thr="'ncbi_id'")),
    V('shared taxon table lacks the rank row', 'B', _R, expect='E2', **_generated('report_taxon', rank_row="")),
    V('shared taxon table names a non-attribute', 'B', _R, expect='E1', **_generated('report_taxon', thr="'threshold'")),
    V('E: COLUMNS concatenated from comprehensions over a shared table', 'E', _R, _COLUMNS_LITERAL, _CONCAT % 'next_taxon', also=((_R, _CSV_CLASS, (_TAXCOLS % ("\t('rank', 'rank'),\n", "'distance_threshold'")) + _CSV_CLASS),)),
    V('concatenated COLUMNS take next.* from the predicted taxon', 'B', _R, _COLUMNS_LITERAL, _CONCAT % 'predicted_taxon', 'E2', also=((_R, _CSV_CLASS, (_TAXCOLS % ("\t('rank', 'rank'),\n", "'distance_threshold'")) + _CSV_CLASS),)),
]
