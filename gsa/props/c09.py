"""C09 - the closest-genomes list is the deterministic (distance, reference order) prefix.

Q1 the list order is produced by a STABLE ascending ordering of the distance row
Q2 the closest match is the first minimum (np.argmin) - with Q1, list[0] is the closest match for every tie pattern
Q3 each entry pairs genome and distance through one index and derives its taxon from that distance alone
Q4 truncation is a prefix slice applied after ordering
Q5 package sweep: every ordering call in src/gambit is classified (armed / exempt with reason)
"""
import ast

from ..astutil import (u, atoms, guard_map, path_atoms, stmts_in, calls_in, callee, callee_attr, reaching_def, def_value,
                       PARAM, AMBIGUOUS, get_arg, get_kw, is_none, is_const, walk_ordered)
from ..report import Undecided
from . import c03

STABLE_KINDS = {'stable', 'mergesort'}
ORDERING_NAMES = {'sort', 'argsort', 'sorted', 'lexsort', 'argpartition', 'partition', 'unique', 'argmin', 'argmax', 'nanargmin', 'min', 'max'}
SWEEP_NAMES = {'sort', 'argsort', 'sorted', 'lexsort', 'argpartition', 'partition', 'unique'}

# (function qualname, callee text) -> reason. Confirmed by reading; a new unclassified ordering call is exit 2.
EXEMPT = {
    ('gambit.sigs.calc.SetAccumulator.signature', '.sort'): 'elements of a set are distinct: any sort gives the same array (C01-K7)',
    ('gambit.classify.classify', 'sorted'): 'Python sorted() is stable and only orders names inside a warning message',
    ('gambit.db.models.Taxon._print_tree', 'sorted'): 'debug printing only; Python sorted() is stable',
}
ARMED = {('gambit.query.get_result_item', 'np.argsort')}


def ordering_is_stable(call, dists):
    """(verdict, description). verdict True/False, or None when the construct is outside the vocabulary."""
    f = u(call.func)
    if f in ('np.argsort', 'numpy.argsort') or (callee_attr(call) == 'argsort' and u(call.func.value) == dists):
        args = call.args if f in ('np.argsort', 'numpy.argsort') else [ast.Name(id=dists)] + list(call.args)
        if not args or u(args[0]) != dists:
            return False, f'orders {u(args[0]) if args else None}, not the distance row'
        kind = get_kw(call, 'kind')
        if kind is None and len(args) >= 3:
            kind = args[2]
        axis = get_kw(call, 'axis')
        if kind is None:
            return False, "kind=<default 'quicksort'> (unstable introsort: tie order depends on SIMD dispatch)"
        if isinstance(kind, ast.Constant) and kind.value in STABLE_KINDS:
            return True, f'kind={kind.value!r}'
        if isinstance(kind, ast.Constant):
            return False, f'kind={kind.value!r} (unstable)'
        return None, f'kind={u(kind)}'
    if f in ('np.lexsort', 'numpy.lexsort'):
        keys = call.args[0] if call.args else None
        if isinstance(keys, (ast.Tuple, ast.List)) and len(keys.elts) == 2 and u(keys.elts[1]) == dists \
                and isinstance(keys.elts[0], ast.Call) and u(keys.elts[0].func) in ('np.arange', 'numpy.arange'):
            return True, 'lexsort((arange, dists))'
        return None, u(call)
    if f == 'sorted':
        it = call.args[0] if call.args else None
        key = get_kw(call, 'key')
        rev = get_kw(call, 'reverse')
        if rev is not None and not is_const(rev, False):
            return False, 'reverse order'
        if isinstance(it, ast.Call) and u(it.func) == 'range' and u(it.args[0]) == f'len({dists})' and key is not None:
            k = u(key)
            if k in (f'{dists}.__getitem__',) or (isinstance(key, ast.Lambda) and len(key.args.args) == 1
                                                  and u(key.body) == f'{dists}[{key.args.args[0].arg}]'):
                return True, 'sorted(range(n), key=dists[i]) (stable)'
        return None, u(call)
    return None, u(call)


def check(ctx):
    rep, m = ctx.rep, ctx.model
    rep.rule('Q1', 'closest_genomes order comes from a stable ascending ordering of the distance row')
    rep.rule('Q2', 'closest match = np.argmin (first minimum), same-index pairing (shared with C03-D3)')
    rep.rule('Q3', 'each listed match uses one index for genome and distance; its taxon defaults to matching_taxon(genome.taxon, distance)')
    rep.rule('Q4', 'truncation is the prefix [:report_closest] applied after ordering')
    rep.rule('Q5', 'every ordering call in src/gambit is classified armed/exempt')
    rep.trusted += ["np.argsort(kind='stable'|'mergesort') is a stable sort on every platform; the default kind is not", 'np.argmin returns the first minimum',
                    'slicing a longer index array to [:N] yields min(N, len) entries']
    fi = m.func('gambit.query.get_result_item')
    rep.functions.add(fi.qualname)
    fn = fi.node
    db, params, dists = fi.params()[:3]
    items = [c for c in calls_in(fn) if m.resolve_call(fi, c) == 'gambit.query.QueryResultItem']
    rep.require(len(items) == 1, 'get_result_item: expected one QueryResultItem construction')
    cg = get_kw(items[0], 'closest_genomes')
    rep.require(cg is not None, 'get_result_item: closest_genomes not passed')
    st = next(s for s in fn.body if any(x is items[0] for x in ast.walk(s)))
    cv = cg
    if isinstance(cg, ast.Name):
        d = reaching_def(fn, cg.id, st)
        cv = def_value(d) if d not in (None, PARAM, AMBIGUOUS) else None
    rep.require(isinstance(cv, ast.ListComp) and len(cv.generators) == 1 and isinstance(cv.generators[0].target, ast.Name),
                f'get_result_item: closest_genomes is not a list comprehension: {u(cv)}')
    gen = cv.generators[0]
    iv = gen.target.id
    rep.add('Q4', fi.site(cv), 'no entry is filtered out of the list', not gen.ifs, expected='no filter', found=[u(i) for i in gen.ifs], stmt='list filter')
    it = gen.iter
    # Q4: prefix slice
    sliced = isinstance(it, ast.Subscript) and isinstance(it.slice, ast.Slice)
    if sliced:
        sl = it.slice
        okp = sl.lower is None and sl.step is None and u(sl.upper) == f'{params}.report_closest'
        rep.add('Q4', fi.site(cv), 'the list is the first report_closest entries of the ordered indices', okp, expected=f'[:{params}.report_closest]', found=u(it.slice), stmt='prefix slice')
        inner = it.value
    else:
        rep.add('Q4', fi.site(cv), 'the list is truncated to report_closest entries', False, expected=f'[:{params}.report_closest]', found=u(it), stmt='prefix slice')
        inner = it
    if isinstance(inner, ast.Name):
        d = reaching_def(fn, inner.id, st)
        inner = def_value(d) if d not in (None, PARAM, AMBIGUOUS) else inner
    rep.require(isinstance(inner, ast.Call), f'get_result_item: ordering expression is not a call: {u(inner)}')
    rep.call_sites += 1
    # sorting must see the whole row (slice applied after ordering)
    sub_in_args = [a for a in inner.args if isinstance(a, ast.Subscript) and isinstance(a.slice, ast.Slice)]
    rep.add('Q4', fi.site(inner), 'ordering is applied to the whole distance row (truncation comes after)', not sub_in_args, expected='whole row', found=[u(a) for a in sub_in_args], stmt='order before slice')
    verdict, desc = ordering_is_stable(inner, dists)
    if verdict is None:
        raise Undecided(f'get_result_item: ordering construct outside the vocabulary: {desc}')
    rep.add('Q1', fi.site(inner), 'closest_genomes is ordered by a stable ascending sort of the distance row (ties in reference order, identical on every machine)', verdict,
            expected="np.argsort(dists, kind='stable') | lexsort | sorted(range(n), key=...)", found=f'{u(inner)}: {desc}', stmt=inner)
    # Q3
    e = cv.elt
    okq = isinstance(e, ast.Call) and m.resolve_call(fi, e) == 'gambit.classify.GenomeMatch'
    rep.require(okq, f'get_result_item: list element is not a GenomeMatch: {u(e)}')
    g = get_arg(e, 0, 'genome')
    d_ = get_arg(e, 1, 'distance')
    rep.add('Q3', fi.site(e), 'each entry pairs genome and distance through the one ordered index', u(g) == f'{db}.genomes[{iv}]' and u(d_) == f'{dists}[{iv}]', expected=f'GenomeMatch({db}.genomes[{iv}], {dists}[{iv}])',
            found=u(e), stmt='entry pairing')
    mt = get_arg(e, 2, 'matched_taxon')
    rep.add('Q3', fi.site(e), "each entry's taxon is the default: what its own distance alone would assign", mt is None, expected='matched_taxon left to its default', found=u(mt) if mt not in (None, Ellipsis) else mt,
            stmt='entry taxon')
    # the genomes classified and the genomes listed are the same sequence
    cls_calls = [c for c in calls_in(fn) if m.resolve_call(fi, c) == 'gambit.classify.classify']
    rep.add('Q3', fi.site(cls_calls[0] if cls_calls else e), 'classification and the list index the same genome sequence and the same distance row',
            len(cls_calls) == 1 and [u(a) for a in cls_calls[0].args[:2]] == [f'{db}.genomes', dists], expected=f'classify({db}.genomes, {dists})', found=[u(c)[:60] for c in cls_calls], stmt='shared operands')
    # Q2 (shared with C03)
    c03.classify_head(ctx, rule='Q2')
    gc = m.cls('gambit.classify.GenomeMatch')
    f3 = gc.methods.get('_matched_taxon_default')
    body = [s for s in f3.node.body if not (isinstance(s, ast.Expr) and isinstance(s.value, ast.Constant))] if f3 else []
    okg = f3 is not None and len(body) == 1 and isinstance(body[0], ast.Return) and isinstance(body[0].value, ast.Call) \
        and m.resolve_call(f3, body[0].value) == 'gambit.classify.matching_taxon' and [u(a) for a in body[0].value.args] == ['self.genome.taxon', 'self.distance']
    rep.add('Q3', f3.site() if f3 else gc.site(), 'default matched taxon = matching_taxon(own genome taxon, own distance)', okg, expected='matching_taxon(self.genome.taxon, self.distance)',
            found=[u(s) for s in body], stmt='matched_taxon default')
    qp = m.cls('gambit.query.QueryParams')
    dflt = qp.class_attrs.get('report_closest')
    dv = get_kw(dflt, 'default') if isinstance(dflt, ast.Call) else None
    rep.add('Q4', qp.site(dflt), 'list length parameter defaults to a positive integer', isinstance(dv, ast.Constant) and isinstance(dv.value, int) and dv.value >= 1, expected='default >= 1', found=u(dv),
            stmt='report_closest default')
    sweep(ctx, inner)


def sweep(ctx, armed_call=None):
    """Q5: classify every ordering call in the package."""
    rep, m = ctx.rep, ctx.model
    seen = []
    # scope: everything that can influence the order or content of a result item (per-row closure + exporters) plus the
    # functions already classified; an ordering call elsewhere in the package cannot reorder the closest-genomes list
    from .. import effects
    scope = effects.closure(m, ['gambit.query.query', 'gambit.query.get_result_item'], method_modules={'gambit.db.models', 'gambit.classify', 'gambit.query', 'gambit.results'})
    scope |= {q for q in m.functions if q.startswith('gambit.results.')} | {k[0] for k in EXEMPT} | {k[0] for k in ARMED}
    rep.info['ordering_sweep_scope'] = len(scope)
    for fi, call in m.iter_calls(kinds=('py',)):
        if fi.qualname not in scope and fi.qualname.rsplit('.', 1)[0] not in scope:
            continue
        name = callee_attr(call)
        if name not in SWEEP_NAMES:
            continue
        txt = u(call.func)
        key = (fi.qualname, txt if not (isinstance(call.func, ast.Attribute) and isinstance(call.func.value, ast.Name) and call.func.value.id not in ('np', 'numpy')) else f'.{name}')
        seen.append(key)
        if key in ARMED or call is armed_call:
            rep.add('Q5', fi.site(call), f'ordering call {txt} is armed (its order is observable in results; decided by Q1)', True, found=txt, stmt=call)
        elif key in EXEMPT:
            rep.add('Q5', fi.site(call), f'ordering call {txt} is exempt: {EXEMPT[key]}', True, found=txt, stmt=call)
        else:
            # nested defs are walked under their parent too; skip duplicates by identity of the parent qualname
            if any((q, t) in EXEMPT or (q, t) in ARMED for (q, t) in [(fi.qualname.rsplit('.', 1)[0], txt)]):
                continue
            raise Undecided(f'unclassified ordering call {txt} in {fi.qualname} ({fi.file}:{call.lineno}); classify it as armed or exempt in c09.py')
    rep.floor('Q5', 'classified ordering calls', len(seen), 3)


from ..variants import V  # noqa: E402

_Q = 'src/gambit/query.py'
_C = 'src/gambit/classify.py'
VARIANTS = [
    V("kind='stable' dropped (the repaired defect)", 'B', _Q, "np.argsort(dists, kind='stable')", "np.argsort(dists)", 'Q1'),
    V("kind='quicksort'", 'B', _Q, "np.argsort(dists, kind='stable')", "np.argsort(dists, kind='quicksort')", 'Q1'),
    V('argmax for the closest match', 'B', _C, "closest = np.argmin(dists)", "closest = np.argmax(dists)", 'Q2'),
    V('slice before sort', 'B', _Q, "np.argsort(dists, kind='stable')[:params.report_closest]", "np.argsort(dists[:params.report_closest], kind='stable')", 'Q4'),
    V('descending order', 'B', _Q, "np.argsort(dists, kind='stable')", "np.argsort(-dists, kind='stable')", 'Q1'),
    V('suffix instead of prefix', 'B', _Q, "[:params.report_closest]", "[-params.report_closest:]", 'Q4'),
    V('distance from a different index', 'B', _Q, "GenomeMatch(db.genomes[i], dists[i])", "GenomeMatch(db.genomes[i], dists[0])", 'Q3'),
    V('entries filtered', 'B', _Q, "[:params.report_closest]]", "[:params.report_closest] if dists[i] < 1]", 'Q4'),
    V('strict mode replaces the closest match by an equidistant primary match (seeded C09b)', 'B', _C, "\t\tresult.warnings.append('Primary genome match is not closest match.')",
      "\t\tresult.closest_match = primary_match", 'Q2'),
    V("E: kind='mergesort'", 'E', _Q, "np.argsort(dists, kind='stable')", "np.argsort(dists, kind='mergesort')"),
    V('E: sorted(range(n), key=...)', 'E', _Q, "np.argsort(dists, kind='stable')", "sorted(range(len(dists)), key=dists.__getitem__)"),
    V('E: order named by a local', 'E', _Q, "\tclosest = [GenomeMatch(db.genomes[i], dists[i]) for i in np.argsort(dists, kind='stable')[:params.report_closest]]",
      "\torder = np.argsort(dists, kind='stable')\n\tclosest = [GenomeMatch(db.genomes[i], dists[i]) for i in order[:params.report_closest]]"),
]
