"""C09 - the closest-genomes list is the deterministic (distance, reference order) prefix.

Q1 the list order is produced by a STABLE ascending ordering of the distance row
Q2 the closest match is the first minimum (np.argmin) - with Q1, list[0] is the closest match for every tie pattern
Q3 each entry pairs genome and distance through one index and derives its taxon from that distance alone
Q4 truncation is a prefix slice applied after ordering
Q5 package sweep: every ordering call in src/gambit is classified (armed / exempt with reason)
"""
import ast

from ..astutil import (u, atoms, guard_map, path_atoms, stmts_in, calls_in, callee, callee_attr, reaching_def, def_value,
                       PARAM, AMBIGUOUS, get_arg, get_kw, is_none, is_const, walk_ordered, block_path)
from ..report import Undecided
from . import c03

STABLE_KINDS = {'stable', 'mergesort'}
ORDERING_NAMES = {'sort', 'argsort', 'sorted', 'lexsort', 'argpartition', 'partition', 'unique', 'argmin', 'argmax', 'nanargmin', 'min', 'max'}
SWEEP_NAMES = {'sort', 'argsort', 'sorted', 'lexsort', 'argpartition', 'partition', 'unique'}

# (function qualname, callee text) -> reason. Confirmed by reading; a new unclassified ordering call is exit 2.
EXEMPT = {
    ('gambit.sigs.calc.SetAccumulator.signature', '.sort'): 'elements of a set are distinct: any sort gives the same array (C01-K7)',
    ('gambit.classify.classify', 'sorted'): 'Python sorted() is stable and only orders names inside a warning message',
    ('gambit.db.models.Taxon._print_tree', 'sorted'): 'debug printing only; Python sorted() is stable',
}
ARMED = {('gambit.query.get_result_item', 'np.argsort')}
# exemptions that rest on a property of the operand: (reason, predicate(model, expression the sorted value was built from))
def _built_from_a_set(m, e):
    """np.fromiter(self.X, ...) / np.array(list(self.X)) where X is an attribute the accumulator initialises with set()."""
    ci = m.classes.get('gambit.sigs.calc.SetAccumulator')
    init = ci.methods.get('__init__') if ci else None
    sets = set()
    for s in (stmts_in(init.node.body) if init else []):
        if isinstance(s, ast.Assign) and isinstance(s.value, ast.Call) and u(s.value.func) == 'set' and not s.value.args:
            sets |= {u(t) for t in s.targets if isinstance(t, ast.Attribute) and u(t.value) == 'self'}
    if not (isinstance(e, ast.Call) and u(e.func) in ('np.fromiter', 'numpy.fromiter', 'np.array', 'numpy.array', 'list') and e.args):
        return False
    a = e.args[0]
    if isinstance(a, ast.Call) and u(a.func) == 'list' and len(a.args) == 1:
        a = a.args[0]
    return u(a) in sets


PREMISE = {
    ('gambit.sigs.calc.SetAccumulator.signature', '.sort'): ('the array is built from the elements of a set (distinct values: every sort algorithm returns the same array)', _built_from_a_set),
}


def ordering_is_stable(call, dists):
    """(verdict, description). verdict True/False, or None when the construct is outside the vocabulary."""
    f = u(call.func)
    if f in ('np.argsort', 'numpy.argsort') or (callee_attr(call) == 'argsort' and u(call.func.value) == dists):
        args = call.args if f in ('np.argsort', 'numpy.argsort') else [ast.Name(id=dists)] + list(call.args)
        if not args or u(args[0]) != dists:
            return False, f'orders {u(args[0]) if args else None}, not the distance row'
        kind = get_kw(call, 'kind')
        if kind is None and len(args) >= 3:
            kind = args[2]
        axis = get_kw(call, 'axis')
        if kind is None:
            return False, "kind=<default 'quicksort'> (unstable introsort: tie order depends on SIMD dispatch)"
        if isinstance(kind, ast.Constant) and kind.value in STABLE_KINDS:
            return True, f'kind={kind.value!r}'
        if isinstance(kind, ast.Constant):
            return False, f'kind={kind.value!r} (unstable)'
        return None, f'kind={u(kind)}'
    if f in ('np.lexsort', 'numpy.lexsort'):
        keys = call.args[0] if call.args else None
        if isinstance(keys, (ast.Tuple, ast.List)) and len(keys.elts) == 2 and u(keys.elts[1]) == dists \
                and isinstance(keys.elts[0], ast.Call) and u(keys.elts[0].func) in ('np.arange', 'numpy.arange'):
            return True, 'lexsort((arange, dists))'
        return None, u(call)
    if f == 'sorted':
        it = call.args[0] if call.args else None
        key = get_kw(call, 'key')
        rev = get_kw(call, 'reverse')
        if rev is not None and not is_const(rev, False):
            return False, 'reverse order'
        if isinstance(it, ast.Call) and u(it.func) == 'range' and u(it.args[0]) == f'len({dists})' and key is not None:
            k = u(key)
            if k in (f'{dists}.__getitem__',) or (isinstance(key, ast.Lambda) and len(key.args.args) == 1
                                                  and u(key.body) == f'{dists}[{key.args.args[0].arg}]'):
                return True, 'sorted(range(n), key=dists[i]) (stable)'
        return None, u(call)
    return None, u(call)


def _appends(stmts, acc, tests=()):
    """(append call, enclosing tests, statement) for every `acc.append(x)` statement in a loop body; other control flow -> Undecided."""
    out = []
    for s in stmts:
        if isinstance(s, ast.Expr) and isinstance(s.value, ast.Call) and isinstance(s.value.func, ast.Attribute) and u(s.value.func.value) == acc:
            if s.value.func.attr != 'append' or len(s.value.args) != 1 or s.value.keywords:
                raise Undecided(f'get_result_item: the list {acc} is modified by something other than append(x): {u(s)[:80]}')
            out.append((s.value, tuple(tests), s))
        elif isinstance(s, ast.If):
            out += _appends(s.body, acc, tuple(tests) + ((s.test, True),))
            out += _appends(s.orelse, acc, tuple(tests) + ((s.test, False),))
        elif isinstance(s, (ast.Assign, ast.AnnAssign)) and all(isinstance(t, ast.Name) for t in (s.targets if isinstance(s, ast.Assign) else [s.target])):
            continue
        elif isinstance(s, (ast.Pass,)) or (isinstance(s, ast.Expr) and isinstance(s.value, ast.Constant)):
            continue
        else:
            raise Undecided(f'get_result_item: statement in the loop that builds {acc} is outside the vocabulary: {u(s)[:80]}')
    return out


def list_form(ctx, fi, res, cg, st):
    """Normal form of the closest-genomes list, whether it is written as a comprehension or as `acc = []; for v in it: acc.append(e)`:
    dict(elt, at (statement at which elt is evaluated), var, iter, iter_at, filters [text], node)."""
    rep = ctx.rep
    fn = fi.node
    trail = []
    cv, at = res.top(cg, st, trail=trail)
    if isinstance(cv, ast.ListComp):
        changed = [n for n in trail if n in res.mutated]
        rep.require(not changed, f'get_result_item: the list {changed[0] if changed else ""} is modified in place after it was built (reverse / sort / item assignment ...): the rule cannot tell what order it ends up in')
        rep.require(len(cv.generators) == 1 and isinstance(cv.generators[0].target, ast.Name), f'get_result_item: closest_genomes comprehension with several loops / a structured target: {u(cv)[:80]}')
        gen = cv.generators[0]
        return dict(elt=cv.elt, at=at, var=gen.target.id, iter=gen.iter, iter_at=at, filters=[u(i) for i in gen.ifs], node=cv)
    empty = (isinstance(cv, ast.List) and not cv.elts) or (isinstance(cv, ast.Call) and u(cv.func) == 'list' and not cv.args and not cv.keywords)
    rep.require(empty and isinstance(at, ast.Assign) and len(at.targets) == 1 and isinstance(at.targets[0], ast.Name),
                f'get_result_item: closest_genomes is neither a list comprehension nor a list filled by an append loop: {u(cv)[:80]}')
    acc = at.targets[0].id
    path = block_path(fn, at)
    block, idx, _ = path[-1]
    loops = []
    for s in block[idx + 1:]:
        uses = [n for n in ast.walk(s) if isinstance(n, ast.Name) and n.id == acc]
        if not uses:
            continue
        if isinstance(s, ast.For) and not any(x is cg for x in ast.walk(s)):
            loops.append(s)
        elif isinstance(s, ast.Assign) and isinstance(s.value, ast.Name) and s.value.id == acc and all(isinstance(t, ast.Name) for t in s.targets):
            continue            # an alias: followed by the copy propagation
        elif any(x is cg for x in ast.walk(s)):
            continue            # the use in the result item
        else:
            raise Undecided(f'get_result_item: the list {acc} is used in a way the rule does not model: {u(s)[:80]}')
    rep.require(len(loops) == 1, f'get_result_item: expected exactly one loop filling the list {acc}, found {len(loops)}')
    loop = loops[0]
    rep.require(isinstance(loop.target, ast.Name) and not loop.orelse, f'get_result_item: the loop filling {acc} has a structured target / an else clause')
    apps = _appends(loop.body, acc)
    rep.require(len(apps) == 1, f'get_result_item: expected exactly one {acc}.append(...) in the loop, found {len(apps)}')
    call, tests, stmt = apps[0]
    return dict(elt=call.args[0], at=stmt, var=loop.target.id, iter=loop.iter, iter_at=loop, filters=[('' if pol else 'not ') + u(t) for (t, pol) in tests], node=loop)


def check(ctx):
    rep, m = ctx.rep, ctx.model
    rep.rule('Q1', 'closest_genomes order comes from a stable ascending ordering of the distance row')
    rep.rule('Q2', 'closest match = np.argmin (first minimum), same-index pairing (shared with C03-D3)')
    rep.rule('Q3', 'each listed match uses one index for genome and distance; its taxon is matching_taxon(genome.taxon, distance) of that very pair (by default or explicitly)')
    rep.rule('Q4', 'truncation is the prefix [:report_closest] applied after ordering; one entry per ordered index (comprehension or append loop), none filtered')
    rep.rule('Q5', 'every ordering call in src/gambit is classified armed/exempt')
    rep.trusted += ["np.argsort(kind='stable'|'mergesort') is a stable sort on every platform; the default kind is not", 'np.argmin returns the first minimum',
                    'slicing a longer index array to [:N] yields min(N, len) entries']
    # "does not depend on ... the chunk size": the distance row the list is built from is the same for every chunking (C05-B5 re-evaluated)
    from . import c05
    rep.rule('B5', 'C05-B5 re-evaluated: jaccarddist_matrix - one slice selects the reference chunk and the output columns, chunk_slices tiles [0, n), for every chunk size')
    c05.check_matrix(ctx)
    rep.rule('Q6', 'QueryResultItem / GenomeMatch are plain records: the list and the distances reported are the values stored (no converter / rewriting hook)')
    from ..records import check_plain_records
    check_plain_records(rep, m, 'Q6', ['gambit.query.QueryResultItem', 'gambit.classify.GenomeMatch'], 'the closest-genomes list and its distances')
    fi = m.func('gambit.query.get_result_item')
    rep.functions.add(fi.qualname)
    fn = fi.node
    db, params, dists = fi.params()[:3]
    items = [c for c in calls_in(fn) if m.resolve_call(fi, c) == 'gambit.query.QueryResultItem']
    rep.require(len(items) == 1, 'get_result_item: expected one QueryResultItem construction')
    cg = get_kw(items[0], 'closest_genomes')
    rep.require(cg is not None, 'get_result_item: closest_genomes not passed')
    st = c03.stmt_of(fn, items[0])
    res = c03.Resolver(fn)
    def structural_list():
        lf = list_form(ctx, fi, res, cg, st)
        iv = lf['var']
        rep.add('Q4', fi.site(lf['node']), 'no entry is filtered out of the list', not lf['filters'], expected='no filter', found=lf['filters'], stmt='list filter')
        it, it_at = res.top(lf['iter'], lf['iter_at'])
        # Q4: prefix slice
        sliced = isinstance(it, ast.Subscript) and isinstance(it.slice, ast.Slice)
        if sliced:
            sl = it.slice
            up = res.text(sl.upper, it_at) if sl.upper is not None else None
            okp = sl.lower is None and sl.step is None and up == f'{params}.report_closest'
            rep.add('Q4', fi.site(lf['node']), 'the list is the first report_closest entries of the ordered indices', okp, expected=f'[:{params}.report_closest]', found=u(it.slice), stmt='prefix slice')
            inner, inner_at = res.top(it.value, it_at)
        else:
            # no slice: a located deviation only when the iterable IS an ordering the rule understands (then nothing truncates it); a selection
            # helper the rule cannot read (a top-N fast path, a heap) is outside its vocabulary - undecided, not a violation
            if isinstance(it, ast.Call):
                probe, desc0 = ordering_is_stable(c03.strip_copies(res.deep(it, it_at)), dists)
                if probe is None:
                    # a selection helper of the package: an index selection that is arbitrary at ties (argpartition, an argsort that is not
                    # stable, heapq on indices) anywhere in it is a located deviation - membership / order of equidistant genomes then depends
                    # on the algorithm; a helper without such a primitive is simply beyond this rule
                    hq = m.resolve_call(fi, it)
                    hfi = m.functions.get(hq or '')
                    bad_prims = []
                    seen_h = set()

                    def prims(hf, depth=0):
                        if hf.qualname in seen_h or depth > 2:
                            return
                        seen_h.add(hf.qualname)
                        for c in calls_in(hf.node):
                            nm = callee_attr(c) or callee(c) or ''
                            full = u(c.func)
                            if nm == 'argpartition' or full in ('heapq.nsmallest', 'heapq.nlargest', 'nsmallest', 'nlargest'):
                                bad_prims.append((hf, c, f'{full}: which of several equidistant entries is selected is unspecified'))
                            elif nm == 'argsort':
                                kind = get_kw(c, 'kind')
                                if not (isinstance(kind, ast.Constant) and kind.value in STABLE_KINDS):
                                    bad_prims.append((hf, c, f'{u(c)[:50]}: not a stable sort'))
                            tgt = m.functions.get(m.resolve_call(hf, c) or '')
                            if tgt is not None and tgt.module.kind == 'py':
                                prims(tgt, depth + 1)
                    if hfi is not None:
                        prims(hfi)
                    for hf, c, why in bad_prims:
                        rep.add('Q1', hf.site(c), 'the indices of the closest genomes are selected and ordered by (distance, reference position) for every tie pattern', False,
                                expected="np.argsort(dists, kind='stable')[:N] or an equivalent the rule can read", found=why, stmt=c, construct=hf.qualname)
                    if bad_prims:
                        return
                    raise Undecided(f'get_result_item: the ordered indices come from a construct outside the vocabulary: {u(it)[:80]}')
            rep.add('Q4', fi.site(lf['node']), 'the list is truncated to report_closest entries', False, expected=f'[:{params}.report_closest]', found=u(it), stmt='prefix slice')
            inner, inner_at = it, it_at
        rep.require(isinstance(inner, ast.Call), f'get_result_item: ordering expression is not a call: {u(inner)}')
        rep.call_sites += 1
        # sorting must see the whole row (slice applied after ordering)
        inner_r = c03.strip_copies(res.deep(inner, inner_at))
        rep.require(not res.unknown, f'get_result_item: locals whose value cannot be traced to one expression feed the ordering: {sorted(set(res.unknown))}')
        sub_in_args = [a for a in inner_r.args if isinstance(a, ast.Subscript) and isinstance(a.slice, ast.Slice)]
        rep.add('Q4', fi.site(inner), 'ordering is applied to the whole distance row (truncation comes after)', not sub_in_args, expected='whole row', found=[u(a) for a in sub_in_args], stmt='order before slice')
        verdict, desc = ordering_is_stable(inner_r, dists)
        if verdict is None:
            raise Undecided(f'get_result_item: ordering construct outside the vocabulary: {desc}')
        rep.add('Q1', fi.site(inner), 'closest_genomes is ordered by a stable ascending sort of the distance row (ties in reference order, identical on every machine)', verdict,
                expected="np.argsort(dists, kind='stable') | lexsort | sorted(range(n), key=...)", found=f'{u(inner)}: {desc}', stmt=inner)
        # Q3: the element, with every local replaced by its value (a genome / a distance bound to a local first is the same genome / distance)
        e = c03.strip_copies(res.deep(lf['elt'], lf['at']))
        rep.require(not res.unknown, f'get_result_item: locals whose value cannot be traced to one expression feed the list entries: {sorted(set(res.unknown))}')
        okq = isinstance(e, ast.Call) and m.resolve_call(fi, e) == 'gambit.classify.GenomeMatch'
        rep.require(okq, f'get_result_item: list element is not a GenomeMatch: {u(e)}')
        g = get_arg(e, 0, 'genome')
        d_ = get_arg(e, 1, 'distance')
        rep.add('Q3', fi.site(lf['elt']), 'each entry pairs genome and distance through the one ordered index', u(g) == f'{db}.genomes[{iv}]' and u(d_) == f'{dists}[{iv}]', expected=f'GenomeMatch({db}.genomes[{iv}], {dists}[{iv}])',
                found=u(e), stmt='entry pairing')
        mt = get_arg(e, 2, 'matched_taxon')
        explicit = isinstance(mt, ast.Call) and m.resolve_call(fi, mt) == 'gambit.classify.matching_taxon' and [u(a) for a in mt.args] == [f'{u(g)}.taxon', u(d_)] and not mt.keywords
        rep.add('Q3', fi.site(lf['elt']), "each entry's taxon is what its own distance alone would assign: the default, or matching_taxon(its genome's taxon, its distance) passed explicitly", mt is None or explicit,
                expected=f'matched_taxon left to its default, or matching_taxon({u(g)}.taxon, {u(d_)})', found=u(mt) if mt not in (None, Ellipsis) else mt, stmt='entry taxon')
        # the genomes classified and the genomes listed are the same sequence
        cls_calls = [c for c in calls_in(fn) if m.resolve_call(fi, c) == 'gambit.classify.classify']
        cls_args = [u(c03.strip_copies(res.deep(a, c03.stmt_of(fn, cls_calls[0])))) for a in cls_calls[0].args[:2]] if len(cls_calls) == 1 else None
        rep.add('Q3', fi.site(cls_calls[0] if cls_calls else lf['elt']), 'classification and the list index the same genome sequence and the same distance row',
                cls_args == [f'{db}.genomes', dists], expected=f'classify({db}.genomes, {dists})', found=cls_args if cls_args is not None else [u(c)[:60] for c in cls_calls], stmt='shared operands')
        return inner

    evaluated = set()
    try:
        inner = structural_list()
    except Undecided as why:
        # the construction of the list is outside what the structural rules read: decide it by bounded evaluation of get_result_item
        # itself (every distance row up to length 4 over three values with ties, several list lengths) - or stay undecided
        if any(not o.ok for o in rep.obs):
            raise
        try:
            evaluated = evaluate_list(ctx, fi)
        except Undecided as why2:
            raise Undecided(f'{why}; bounded evaluation: {why2}')
        inner = None
    # Q2 (shared with C03)
    c03.classify_head(ctx, rule='Q2')
    gc = m.cls('gambit.classify.GenomeMatch')
    okg, f3, found = c03.matched_taxon_default_ok(m)
    rep.add('Q3', f3.site() if f3 else gc.site(), 'default matched taxon = matching_taxon(own genome taxon, own distance)', okg, expected='matching_taxon(self.genome.taxon, self.distance)',
            found=found, stmt='matched_taxon default')
    qp = m.cls('gambit.query.QueryParams')
    dflt = qp.class_attrs.get('report_closest')
    dv = get_kw(dflt, 'default') if isinstance(dflt, ast.Call) else None
    rep.add('Q4', qp.site(dflt), 'list length parameter defaults to a positive integer', isinstance(dv, ast.Constant) and isinstance(dv.value, int) and dv.value >= 1, expected='default >= 1', found=u(dv),
            stmt='report_closest default')
    sweep(ctx, inner, evaluated)


def evaluate_list(ctx, fi):
    """Bounded evaluation of get_result_item with the C10 evaluator (the parsed source is interpreted, nothing is imported): for every
    distance row of length 1..4 over {0.0, 0.25, 0.5} (all tie patterns) and list lengths 1, 2, 3, 5, the closest-genomes list must be the
    (distance, reference position) prefix of length min(N, n) with exact distances, and its first entry the reported closest match.
    Unstable sorts / partitions are modelled adversarially (ties in the worst order)."""
    import itertools
    from . import c10
    rep, m = ctx.rep, ctx.model
    ev = c10.Ev(m)
    dom = c10.Domain(ev)
    taxa = dom.forest((None, 0))          # no thresholds: nothing is ever matched, the walk code is not the subject here
    dbci = m.cls('gambit.db.refdb.ReferenceDatabase')
    qp = c10.ClassV(ev, m.cls('gambit.query.QueryParams'))
    qi = c10.ClassV(ev, m.cls('gambit.query.QueryInput'))
    n_eval, bad = 0, []
    for n in (1, 2, 3, 4):
        genomes = [dom.genome(i, taxa[1]) for i in range(n)]
        db = c10.Rec(ev, dbci, dict(genomes=genomes), False)
        for row in itertools.product((0.0, 0.25, 0.5), repeat=n):
            for N in (1, 2, 3, 5):
                params = qp(classify_strict=False, report_closest=N)
                res = ev.run(fi, db, params, c10.NDArr(row), qi('x'))
                n_eval += 1
                want = sorted(range(n), key=lambda i: (row[i], i))[:N]
                kind, v = res
                got = None
                if kind == 'ok' and isinstance(v, c10.Rec) and isinstance(v._f.get('closest_genomes'), list):
                    got = []
                    for x in v._f['closest_genomes']:
                        g = x._f.get('genome') if isinstance(x, c10.Rec) else None
                        got.append((genomes.index(g) if g in genomes else None, x._f.get('distance') if isinstance(x, c10.Rec) else None))
                ok = got is not None and [i for i, _ in got] == want and all(d == row[i] for i, d in got)
                if ok:
                    cm = v._f['classifier_result']._f.get('closest_match') if isinstance(v._f.get('classifier_result'), c10.Rec) else None
                    ok = cm is not None and cm._f.get('genome') is genomes[want[0]]
                if not ok and len(bad) < 3:
                    bad.append(f'dists={list(row)} N={N}: ' + (f'list {got}' if got is not None else c10._outcome(res)) + f', expected indices {want}')
                elif not ok:
                    bad.append(None)
    rep.add('Q1', fi.site(), 'closest_genomes = the (distance, reference position) prefix of length min(N, n) with exact distances, first entry = the reported closest match '
            '(bounded evaluation: every row up to length 4 over three values, N in 1, 2, 3, 5; unstable orderings modelled adversarially)', not bad,
            expected='stable ascending order, prefix, no padding', found=(f'{len(bad)} of {n_eval} cases differ, e.g. ' + ' | '.join(b for b in bad if b)) if bad else f'holds on all {n_eval} evaluated cases', stmt='list by evaluation')
    rep.info['Q1_bounded_evaluations'] = n_eval
    rep.assumptions.append('C09-Q1/Q4 were decided by bounded evaluation of get_result_item (the list construction is outside the structural vocabulary): rows up to length 4 over three values with every tie pattern, list lengths 1, 2, 3, 5.')
    if not bad:
        # coverage side-condition over the functions of gambit.query / new helpers the evaluation entered
        from ..inline import known_symbols
        known = known_symbols()
        unc = []
        for q, f2 in sorted(ev.entered.items()):
            if not (q.startswith('gambit.query.') or q not in known):
                continue
            for st in stmts_in(f2.node.body):
                if isinstance(st, (ast.FunctionDef, ast.ClassDef, ast.Pass)) or (isinstance(st, ast.Expr) and isinstance(st.value, ast.Constant)):
                    continue
                if id(st) not in ev.seen_stmt:
                    unc.append(f'{q}: statement never reached: `{u(st)[:60]}`')
            for nd in ast.walk(f2.node):
                if isinstance(nd, (ast.If, ast.While, ast.IfExp)) and not isinstance(nd.test, ast.Constant):
                    got_ = ev.seen_test.get(id(nd))
                    if got_ is not None and len(got_) < 2 and not (True in got_ and isinstance(nd, ast.If) and not nd.orelse):
                        unc.append(f'{q}: test `{u(nd.test)[:60]}` is always {sorted(got_)[0]}')
        if unc:
            raise Undecided('the evaluated domain does not cover the code: ' + '; '.join(unc[:3]))
    return set(ev.entered)


def sweep(ctx, armed_call=None, evaluated=()):
    """Q5: classify every ordering call in the package."""
    rep, m = ctx.rep, ctx.model
    seen = []
    # scope: everything that can influence the order or content of a result item (per-row closure + exporters) plus the
    # functions already classified; an ordering call elsewhere in the package cannot reorder the closest-genomes list
    from .. import effects
    scope = effects.closure(m, ['gambit.query.query', 'gambit.query.get_result_item'], method_modules={'gambit.db.models', 'gambit.classify', 'gambit.query', 'gambit.results'})
    scope |= {q for q in m.functions if q.startswith('gambit.results.')} | {k[0] for k in EXEMPT} | {k[0] for k in ARMED}
    rep.info['ordering_sweep_scope'] = len(scope)
    for fi, call in m.iter_calls(kinds=('py',)):
        if fi.qualname not in scope and fi.qualname.rsplit('.', 1)[0] not in scope:
            continue
        name = callee_attr(call)
        if name not in SWEEP_NAMES:
            continue
        txt = u(call.func)
        key = (fi.qualname, txt if not (isinstance(call.func, ast.Attribute) and isinstance(call.func.value, ast.Name) and call.func.value.id not in ('np', 'numpy')) else f'.{name}')
        if txt in ('np.sort', 'numpy.sort') and call.args and get_kw(call, 'order') is None:
            key = (fi.qualname, '.sort')       # a value sort, like x.sort(): np.sort(x) returns the sorted copy of x
        if key in PREMISE:
            # the exemption rests on a fact about the sorted operand: it must still be visible
            operand = call.args[0] if txt in ('np.sort', 'numpy.sort') else call.func.value
            src, _ = c03.Resolver(fi.node).top(operand, c03.stmt_of(fi.node, call))
            what, holds = PREMISE[key]
            if not holds(m, src):
                raise Undecided(f'ordering call {txt} in {fi.qualname} ({fi.file}:{call.lineno}) is exempt only because {what}; its operand is now {u(src)[:60]}')
        seen.append(key)
        if fi.qualname in evaluated and key not in EXEMPT and key not in ARMED:
            rep.add('Q5', fi.site(call), f'ordering call {txt} is armed (its effect on the list was decided by the bounded evaluation of Q1)', True, found=txt, stmt=call)
            continue
        if key in ARMED or call is armed_call:
            rep.add('Q5', fi.site(call), f'ordering call {txt} is armed (its order is observable in results; decided by Q1)', True, found=txt, stmt=call)
        elif key in EXEMPT:
            rep.add('Q5', fi.site(call), f'ordering call {txt} is exempt: {EXEMPT[key]}', True, found=txt, stmt=call)
        else:
            # nested defs are walked under their parent too; skip duplicates by identity of the parent qualname
            if any((q, t) in EXEMPT or (q, t) in ARMED for (q, t) in [(fi.qualname.rsplit('.', 1)[0], txt)]):
                continue
            raise Undecided(f'unclassified ordering call {txt} in {fi.qualname} ({fi.file}:{call.lineno}); classify it as armed or exempt in c09.py')
    rep.floor('Q5', 'classified ordering calls', len(seen), 3)


from ..variants import V  # noqa: E402

_Q = 'src/gambit/query.py'
_C = 'src/gambit/classify.py'
_K = 'src/gambit/sigs/calc.py'
_IMP = (_Q, "from gambit.classify import classify, ClassifierResult, GenomeMatch", "from gambit.classify import classify, matching_taxon, ClassifierResult, GenomeMatch")
_GRI = ("\tclsresult = classify(db.genomes, dists, strict=params.classify_strict)\n"
        "\tclosest = [GenomeMatch(db.genomes[i], dists[i]) for i in np.argsort(dists, kind='stable')[:params.report_closest]]\n")
_LIST = "\tclosest = [GenomeMatch(db.genomes[i], dists[i]) for i in np.argsort(dists, kind='stable')[:params.report_closest]]\n"
_ALIAS = ("\tgenomes = db.genomes\n\tclsresult = classify(genomes, dists, strict=params.classify_strict)\n"
          "\tby_distance = np.argsort(dists, kind='stable')\n\tclosest = [GenomeMatch(genomes[i], dists[i]) for i in by_distance[:params.report_closest]]\n")
_LOOP = "\tclosest = []\n\tfor i in np.argsort(dists, kind='stable')[:params.report_closest]:\n\t\tclosest.append(GenomeMatch(db.genomes[i], dists[i]))\n"
_LOOP_MT = ("\torder = np.argsort(dists, kind='stable')\n\tmatches = []\n\tn = params.report_closest\n\tfor i in order[:n]:\n\t\tgenome = db.genomes[i]\n\t\td = dists[i]\n"
            "\t\tmatches.append(GenomeMatch(genome=genome, distance=d, matched_taxon=matching_taxon(genome.taxon, d)))\n\tclosest = matches\n")
_CM_OLD = ("\tclosest = np.argmin(dists)\n\tclosest_match = GenomeMatch(\n\t\tgenome=ref_genomes[closest],\n\t\tdistance=dists[closest],\n"
           "\t\tmatched_taxon=matching_taxon(ref_genomes[closest].taxon, dists[closest]),\n\t)\n")
_CM_LOCALS = ("\tclosest = np.argmin(dists)\n\tclosest_genome = ref_genomes[closest]\n\tclosest_dist = dists[closest]\n\tclosest_match = GenomeMatch(\n\t\tgenome=closest_genome,\n"
              "\t\tdistance=closest_dist,\n\t\tmatched_taxon=matching_taxon(closest_genome.taxon, closest_dist),\n\t)\n")
VARIANTS = [
    V("kind='stable' dropped (the repaired defect)", 'B', _Q, "np.argsort(dists, kind='stable')", "np.argsort(dists)", 'Q1'),
    V("kind='quicksort'", 'B', _Q, "np.argsort(dists, kind='stable')", "np.argsort(dists, kind='quicksort')", 'Q1'),
    V('argmax for the closest match', 'B', _C, "closest = np.argmin(dists)", "closest = np.argmax(dists)", 'Q2'),
    V('slice before sort', 'B', _Q, "np.argsort(dists, kind='stable')[:params.report_closest]", "np.argsort(dists[:params.report_closest], kind='stable')", 'Q4'),
    V('descending order', 'B', _Q, "np.argsort(dists, kind='stable')", "np.argsort(-dists, kind='stable')", 'Q1'),
    V('suffix instead of prefix', 'B', _Q, "[:params.report_closest]", "[-params.report_closest:]", 'Q4'),
    V('distance from a different index', 'B', _Q, "GenomeMatch(db.genomes[i], dists[i])", "GenomeMatch(db.genomes[i], dists[0])", 'Q3'),
    V('entries filtered', 'B', _Q, "[:params.report_closest]]", "[:params.report_closest] if dists[i] < 1]", 'Q4'),
    V('strict mode replaces the closest match by an equidistant primary match (seeded C09b)', 'B', _C, "\t\tresult.warnings.append('Primary genome match is not closest match.')",
      "\t\tresult.closest_match = primary_match", 'Q2'),
    V("E: kind='mergesort'", 'E', _Q, "np.argsort(dists, kind='stable')", "np.argsort(dists, kind='mergesort')"),
    V('E: sorted(range(n), key=...)', 'E', _Q, "np.argsort(dists, kind='stable')", "sorted(range(len(dists)), key=dists.__getitem__)"),
    V('E: order named by a local', 'E', _Q, "\tclosest = [GenomeMatch(db.genomes[i], dists[i]) for i in np.argsort(dists, kind='stable')[:params.report_closest]]",
      "\torder = np.argsort(dists, kind='stable')\n\tclosest = [GenomeMatch(db.genomes[i], dists[i]) for i in order[:params.report_closest]]"),
    # --- newly accepted forms and their broken twins
    V('E: genome sequence and ordered indices bound to locals', 'E', _Q, _GRI, _ALIAS),
    V('B: list indexes a reversed copy of the genome sequence bound to a local', 'B', _Q, _GRI, _ALIAS.replace("\tgenomes = db.genomes\n", "\tgenomes = db.genomes[::-1]\n"), 'Q3'),
    V('B: classification and list use different genome sequences through locals', 'B', _Q, _GRI,
      _ALIAS.replace("classify(genomes, dists,", "classify(db.genomes, dists,").replace("\tgenomes = db.genomes\n", "\tgenomes = list(reversed(db.genomes))\n"), 'Q3'),
    V('B: ordered indices bound to a local from an unstable sort', 'B', _Q, _GRI, _ALIAS.replace("np.argsort(dists, kind='stable')", "np.argsort(dists)"), 'Q1'),
    V('E: list filled by an append loop', 'E', _Q, _LIST, _LOOP),
    V('B: append loop that skips entries', 'B', _Q, _LIST, _LOOP.replace("\t\tclosest.append(", "\t\tif dists[i] < 1:\n\t\t\tclosest.append(").replace("dists[i]))\n", "dists[i]))\n", 1), 'Q4'),
    V('B: append loop pairing each genome with the distance of the first index', 'B', _Q, _LIST, _LOOP.replace("GenomeMatch(db.genomes[i], dists[i])", "GenomeMatch(db.genomes[i], dists[0])"), 'Q3'),
    V('B: append loop over an unsliced ordering', 'B', _Q, _LIST, _LOOP.replace("[:params.report_closest]", ""), 'Q4'),
    V('E: append loop with genome / distance locals and the matched taxon passed explicitly', 'E', _Q, _LIST, _LOOP_MT, also=(_IMP,)),
    V('B: explicit matched taxon computed from the distance of the closest match', 'B', _Q, _LIST, _LOOP_MT.replace("matching_taxon(genome.taxon, d)", "matching_taxon(genome.taxon, clsresult.closest_match.distance)"), 'Q3', also=(_IMP,)),
    V('B: distance local read one position off the ordered index', 'B', _Q, _LIST, _LOOP_MT.replace("d = dists[i]", "d = dists[i - 1]"), 'Q3', also=(_IMP,)),
    V('B: list length local is one short', 'B', _Q, _LIST, _LOOP_MT.replace("n = params.report_closest\n", "n = params.report_closest - 1\n"), 'Q4', also=(_IMP,)),
    V('E: SetAccumulator.signature through np.sort of the set elements', 'E', _K, "\t\tsig = np.fromiter(self.set, dtype=self._dtype)\n\t\tsig.sort()\n\t\treturn sig\n",
      "\t\tunsorted = np.fromiter(self.set, dtype=self._dtype, count=len(self.set))\n\t\treturn np.sort(unsorted)\n"),
    V('E: closest genome and distance of classify bound to locals first', 'E', _C, _CM_OLD, _CM_LOCALS),
    V('B: closest distance local taken at a fixed index', 'B', _C, _CM_OLD, _CM_LOCALS.replace("closest_dist = dists[closest]", "closest_dist = dists[0]"), 'Q2'),
]
