"""Canonicalising pre-pass (R-2: rules are about normal forms, not text).

Applied to every parsed module before any rule runs, so that behaviour-preserving spellings collapse to one form:
  N1  not (a OP b)           -> a (negated OP) b           for ==, !=, <, <=, >, >=, is, is not, in, not in
  N2  X if not C else Y      -> Y if C else X ;  if not C: A else: B  ->  if C: B else: A   (else present, not an elif chain)
  N3  a > b -> b < a ; a >= b -> b <= a ; for == / != a constant operand goes right, otherwise operands are ordered by text
  N4  t = E; return t        -> return E                   (t assigned once, used only by that return)
  N5  keyword arguments of a call are ordered by name
  N6  x = x + e -> x += e (names; + and -)
  (N7, in model.py: keyword arguments naming leading positional parameters of a resolved package callee become positional)
Line numbers are preserved (copy_location).  The transform is idempotent.
"""
import ast

NEG = {ast.Eq: ast.NotEq, ast.NotEq: ast.Eq, ast.Lt: ast.GtE, ast.LtE: ast.Gt, ast.Gt: ast.LtE, ast.GtE: ast.Lt, ast.Is: ast.IsNot, ast.IsNot: ast.Is,
       ast.In: ast.NotIn, ast.NotIn: ast.In}


def _text(n):
    try:
        return ast.unparse(n)
    except Exception:  # pragma: no cover
        return ast.dump(n)


class Canon(ast.NodeTransformer):
    def visit_UnaryOp(self, node):
        self.generic_visit(node)
        if isinstance(node.op, ast.Not):
            o = node.operand
            if isinstance(o, ast.Compare) and len(o.ops) == 1 and type(o.ops[0]) in NEG:
                new = ast.Compare(left=o.left, ops=[NEG[type(o.ops[0])]()], comparators=o.comparators)
                return self.visit_Compare(ast.copy_location(new, node), descend=False)
            if isinstance(o, ast.UnaryOp) and isinstance(o.op, ast.Not):
                # not not x is only a bool() cast; keep (rare)
                return node
        return node

    def visit_Compare(self, node, descend=True):
        if descend:
            self.generic_visit(node)
        if len(node.ops) != 1:
            return node
        op, l, r = node.ops[0], node.left, node.comparators[0]
        if isinstance(op, ast.Gt):
            return ast.copy_location(ast.Compare(left=r, ops=[ast.Lt()], comparators=[l]), node)
        if isinstance(op, ast.GtE):
            return ast.copy_location(ast.Compare(left=r, ops=[ast.LtE()], comparators=[l]), node)
        if isinstance(op, (ast.Eq, ast.NotEq)):
            lc, rc = isinstance(l, ast.Constant), isinstance(r, ast.Constant)
            swap = (lc and not rc) or (lc == rc and _text(l) > _text(r))
            if swap:
                return ast.copy_location(ast.Compare(left=r, ops=[op], comparators=[l]), node)
        return node

    @staticmethod
    def _positive(test):
        """(positive form of the test, flipped?) - canonical polarity for two-armed conditionals:
        strip a leading not; is not -> is; != -> ==; not in -> in; a <= b -> b < a."""
        if isinstance(test, ast.UnaryOp) and isinstance(test.op, ast.Not):
            return test.operand, True
        if isinstance(test, ast.Compare) and len(test.ops) == 1:
            op = test.ops[0]
            if isinstance(op, (ast.IsNot, ast.NotEq, ast.NotIn)):
                return ast.copy_location(ast.Compare(left=test.left, ops=[NEG[type(op)]()], comparators=test.comparators), test), True
            if isinstance(op, ast.LtE):
                return ast.copy_location(ast.Compare(left=test.comparators[0], ops=[ast.Lt()], comparators=[test.left]), test), True
        return test, False

    def visit_IfExp(self, node):
        self.generic_visit(node)
        t, flipped = self._positive(node.test)
        if flipped:
            return ast.copy_location(ast.IfExp(test=t, body=node.orelse, orelse=node.body), node)
        return node

    def visit_If(self, node):
        self.generic_visit(node)
        if node.orelse and not (len(node.orelse) == 1 and isinstance(node.orelse[0], ast.If)):
            t, flipped = self._positive(node.test)
            if flipped:
                return ast.copy_location(ast.If(test=t, body=node.orelse, orelse=node.body), node)
        return node

    def visit_Assign(self, node):
        self.generic_visit(node)
        # N6: x = x + e  ->  x += e   (names, + and - only)
        if len(node.targets) == 1 and isinstance(node.targets[0], ast.Name) and isinstance(node.value, ast.BinOp) and isinstance(node.value.op, (ast.Add, ast.Sub)) \
                and isinstance(node.value.left, ast.Name) and node.value.left.id == node.targets[0].id:
            return ast.copy_location(ast.AugAssign(target=ast.Name(id=node.targets[0].id, ctx=ast.Store()), op=node.value.op, value=node.value.right), node)
        return node

    def visit_Call(self, node):
        self.generic_visit(node)
        if len(node.keywords) > 1 and all(k.arg is not None for k in node.keywords):
            node.keywords = sorted(node.keywords, key=lambda k: k.arg)
        return node

    def _inline_return_temp(self, body, func):
        """N4 inside one statement list."""
        out = []
        i = 0
        while i < len(body):
            s = body[i]
            for f in ('body', 'orelse', 'finalbody'):
                b = getattr(s, f, None)
                if isinstance(b, list) and b and isinstance(b[0], ast.stmt) and not isinstance(s, (ast.FunctionDef, ast.AsyncFunctionDef, ast.ClassDef)):
                    setattr(s, f, self._inline_return_temp(b, func))
            if isinstance(s, ast.Try):
                for h in s.handlers:
                    h.body = self._inline_return_temp(h.body, func)
            nxt = body[i + 1] if i + 1 < len(body) else None
            if isinstance(s, ast.Assign) and len(s.targets) == 1 and isinstance(s.targets[0], ast.Name) and isinstance(nxt, ast.Return) \
                    and isinstance(nxt.value, ast.Name) and nxt.value.id == s.targets[0].id and s.targets[0].id in self._ret_temps:
                out.append(ast.copy_location(ast.Return(value=s.value), s))
                i += 2
                continue
            out.append(s)
            i += 1
        return out

    @staticmethod
    def _return_temps(func):
        """Names every store of which is immediately followed by `return <name>` and which are loaded nowhere else."""
        stores, loads, pairs = {}, {}, {}

        def blocks(stmts):
            for k, s in enumerate(stmts):
                nxt = stmts[k + 1] if k + 1 < len(stmts) else None
                if isinstance(s, ast.Assign) and len(s.targets) == 1 and isinstance(s.targets[0], ast.Name) and isinstance(nxt, ast.Return) \
                        and isinstance(nxt.value, ast.Name) and nxt.value.id == s.targets[0].id:
                    pairs[s.targets[0].id] = pairs.get(s.targets[0].id, 0) + 1
                if isinstance(s, (ast.FunctionDef, ast.AsyncFunctionDef, ast.ClassDef)):
                    continue
                for f in ('body', 'orelse', 'finalbody'):
                    b = getattr(s, f, None)
                    if isinstance(b, list) and b and isinstance(b[0], ast.stmt):
                        blocks(b)
                if isinstance(s, ast.Try):
                    for h in s.handlers:
                        blocks(h.body)
        blocks(func.body)
        for n in ast.walk(func):
            if isinstance(n, ast.Name):
                d = stores if isinstance(n.ctx, ast.Store) else loads
                d[n.id] = d.get(n.id, 0) + 1
        return {n for n, k in pairs.items() if stores.get(n, 0) == k and loads.get(n, 0) == k}

    def visit_FunctionDef(self, node):
        self.generic_visit(node)
        saved = getattr(self, '_ret_temps', set())
        self._ret_temps = self._return_temps(node)
        if self._ret_temps:
            node.body = self._inline_return_temp(node.body, node)
        self._ret_temps = saved
        return node

    visit_AsyncFunctionDef = visit_FunctionDef


def canonicalise(tree):
    return ast.fix_missing_locations(Canon().visit(tree))
