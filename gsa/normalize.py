"""Canonicalising pre-pass (R-2: rules are about normal forms, not text).

Applied to every parsed module before any rule runs, so that behaviour-preserving spellings collapse to one form:
  N1  not (a OP b)           -> a (negated OP) b           for ==, !=, <, <=, >, >=, is, is not, in, not in
  N2  X if not C else Y      -> Y if C else X ;  if not C: A else: B  ->  if C: B else: A   (else present, not an elif chain)
  N3  a > b -> b < a ; a >= b -> b <= a ; for == / != a constant operand goes right, otherwise operands are ordered by text
  N4  t = E; return t        -> return E                   (t assigned once, used only by that return)
  N5  keyword arguments of a call are ordered by name
  N6  x = x + e -> x += e (names; + and -)
  (N7, in model.py: keyword arguments naming leading positional parameters of a resolved package callee become positional)
Line numbers are preserved (copy_location).  The transform is idempotent.
"""
import ast
import os

N9_ENABLED = os.environ.get('GSA_N9', '1') != '0'      # second stage on; GSA_N9=0 switches it off (development aid)

NEG = {ast.Eq: ast.NotEq, ast.NotEq: ast.Eq, ast.Lt: ast.GtE, ast.LtE: ast.Gt, ast.Gt: ast.LtE, ast.GtE: ast.Lt, ast.Is: ast.IsNot, ast.IsNot: ast.Is,
       ast.In: ast.NotIn, ast.NotIn: ast.In}


def _text(n):
    try:
        return ast.unparse(n)
    except Exception:  # pragma: no cover
        return ast.dump(n)


class Canon(ast.NodeTransformer):
    def visit_UnaryOp(self, node):
        self.generic_visit(node)
        if isinstance(node.op, ast.Not):
            o = node.operand
            if isinstance(o, ast.Compare) and len(o.ops) == 1 and type(o.ops[0]) in NEG:
                new = ast.Compare(left=o.left, ops=[NEG[type(o.ops[0])]()], comparators=o.comparators)
                return self.visit_Compare(ast.copy_location(new, node), descend=False)
            if isinstance(o, ast.UnaryOp) and isinstance(o.op, ast.Not):
                # not not x is only a bool() cast; keep (rare)
                return node
        return node

    def visit_Compare(self, node, descend=True):
        if descend:
            self.generic_visit(node)
        if len(node.ops) != 1:
            return node
        op, l, r = node.ops[0], node.left, node.comparators[0]
        if isinstance(op, ast.Gt):
            return ast.copy_location(ast.Compare(left=r, ops=[ast.Lt()], comparators=[l]), node)
        if isinstance(op, ast.GtE):
            return ast.copy_location(ast.Compare(left=r, ops=[ast.LtE()], comparators=[l]), node)
        if isinstance(op, (ast.Eq, ast.NotEq)):
            lc, rc = isinstance(l, ast.Constant), isinstance(r, ast.Constant)
            swap = (lc and not rc) or (lc == rc and _text(l) > _text(r))
            if swap:
                return ast.copy_location(ast.Compare(left=r, ops=[op], comparators=[l]), node)
        return node

    @staticmethod
    def _positive(test):
        """(positive form of the test, flipped?) - canonical polarity for two-armed conditionals:
        strip a leading not; is not -> is; != -> ==; not in -> in; a <= b -> b < a."""
        if isinstance(test, ast.UnaryOp) and isinstance(test.op, ast.Not):
            return test.operand, True
        if isinstance(test, ast.Compare) and len(test.ops) == 1:
            op = test.ops[0]
            if isinstance(op, (ast.IsNot, ast.NotEq, ast.NotIn)):
                return ast.copy_location(ast.Compare(left=test.left, ops=[NEG[type(op)]()], comparators=test.comparators), test), True
            if isinstance(op, ast.LtE):
                return ast.copy_location(ast.Compare(left=test.comparators[0], ops=[ast.Lt()], comparators=[test.left]), test), True
        return test, False

    def visit_IfExp(self, node):
        self.generic_visit(node)
        t, flipped = self._positive(node.test)
        if flipped:
            return ast.copy_location(ast.IfExp(test=t, body=node.orelse, orelse=node.body), node)
        return node

    def visit_If(self, node):
        self.generic_visit(node)
        if node.orelse and not (len(node.orelse) == 1 and isinstance(node.orelse[0], ast.If)):
            t, flipped = self._positive(node.test)
            if flipped:
                return ast.copy_location(ast.If(test=t, body=node.orelse, orelse=node.body), node)
        return node

    def visit_Assign(self, node):
        self.generic_visit(node)
        # N6: x = x + e  ->  x += e   (names, + and - only)
        if len(node.targets) == 1 and isinstance(node.targets[0], ast.Name) and isinstance(node.value, ast.BinOp) and isinstance(node.value.op, (ast.Add, ast.Sub)) \
                and isinstance(node.value.left, ast.Name) and node.value.left.id == node.targets[0].id:
            return ast.copy_location(ast.AugAssign(target=ast.Name(id=node.targets[0].id, ctx=ast.Store()), op=node.value.op, value=node.value.right), node)
        return node

    def visit_Call(self, node):
        self.generic_visit(node)
        if len(node.keywords) > 1 and all(k.arg is not None for k in node.keywords):
            node.keywords = sorted(node.keywords, key=lambda k: k.arg)
        return node

    def _inline_return_temp(self, body, func):
        """N4 inside one statement list."""
        out = []
        i = 0
        while i < len(body):
            s = body[i]
            for f in ('body', 'orelse', 'finalbody'):
                b = getattr(s, f, None)
                if isinstance(b, list) and b and isinstance(b[0], ast.stmt) and not isinstance(s, (ast.FunctionDef, ast.AsyncFunctionDef, ast.ClassDef)):
                    setattr(s, f, self._inline_return_temp(b, func))
            if isinstance(s, ast.Try):
                for h in s.handlers:
                    h.body = self._inline_return_temp(h.body, func)
            nxt = body[i + 1] if i + 1 < len(body) else None
            if isinstance(s, ast.Assign) and len(s.targets) == 1 and isinstance(s.targets[0], ast.Name) and isinstance(nxt, ast.Return) \
                    and isinstance(nxt.value, ast.Name) and nxt.value.id == s.targets[0].id and s.targets[0].id in self._ret_temps:
                out.append(ast.copy_location(ast.Return(value=s.value), s))
                i += 2
                continue
            out.append(s)
            i += 1
        return out

    @staticmethod
    def _return_temps(func):
        """Names every store of which is immediately followed by `return <name>` and which are loaded nowhere else."""
        stores, loads, pairs = {}, {}, {}

        def blocks(stmts):
            for k, s in enumerate(stmts):
                nxt = stmts[k + 1] if k + 1 < len(stmts) else None
                if isinstance(s, ast.Assign) and len(s.targets) == 1 and isinstance(s.targets[0], ast.Name) and isinstance(nxt, ast.Return) \
                        and isinstance(nxt.value, ast.Name) and nxt.value.id == s.targets[0].id:
                    pairs[s.targets[0].id] = pairs.get(s.targets[0].id, 0) + 1
                if isinstance(s, (ast.FunctionDef, ast.AsyncFunctionDef, ast.ClassDef)):
                    continue
                for f in ('body', 'orelse', 'finalbody'):
                    b = getattr(s, f, None)
                    if isinstance(b, list) and b and isinstance(b[0], ast.stmt):
                        blocks(b)
                if isinstance(s, ast.Try):
                    for h in s.handlers:
                        blocks(h.body)
        blocks(func.body)
        for n in ast.walk(func):
            if isinstance(n, ast.Name):
                d = stores if isinstance(n.ctx, ast.Store) else loads
                d[n.id] = d.get(n.id, 0) + 1
        return {n for n, k in pairs.items() if stores.get(n, 0) == k and loads.get(n, 0) == k}

    def visit_FunctionDef(self, node):
        self.generic_visit(node)
        saved = getattr(self, '_ret_temps', set())
        self._ret_temps = self._return_temps(node)
        if self._ret_temps:
            node.body = self._inline_return_temp(node.body, node)
        self._ret_temps = saved
        return node

    visit_AsyncFunctionDef = visit_FunctionDef


class InlineTemps(ast.NodeTransformer):
    """N9: t = E; <next statement using t exactly once>  ->  <next statement with E in place of t>
    when t is stored exactly once and loaded exactly once in the whole function, the use is in the statement that follows
    the definition in the same block (own expressions of that statement, not inside a lambda / comprehension / nested def),
    and E is not a bare name/constant alias of something the next statement rebinds.  It is the inverse of "bind the value to
    a local first" and makes N4 a special case."""

    SIMPLE = (ast.Assign, ast.AugAssign, ast.AnnAssign, ast.Expr, ast.Return, ast.Raise, ast.Assert, ast.Delete)

    def visit_FunctionDef(self, node):
        self.generic_visit(node)
        for _ in range(4):
            stores, loads = {}, {}
            for n in ast.walk(node):
                if isinstance(n, ast.Name):
                    d = loads if isinstance(n.ctx, ast.Load) else stores
                    d[n.id] = d.get(n.id, 0) + 1
                elif isinstance(n, (ast.Global, ast.Nonlocal)):
                    for nm in n.names:
                        stores[nm] = stores.get(nm, 0) + 5
            a = node.args
            for x in a.posonlyargs + a.args + a.kwonlyargs + ([a.vararg] if a.vararg else []) + ([a.kwarg] if a.kwarg else []):
                stores[x.arg] = stores.get(x.arg, 0) + 1
            self._cand = {n for n in stores if stores[n] == 1 and loads.get(n, 0) == 1}
            self._changed = False
            if not self._cand:
                break
            node.body = self._block(node.body)
            if not self._changed:
                break
        return node

    visit_AsyncFunctionDef = visit_FunctionDef

    @staticmethod
    def _own_exprs(s):
        if isinstance(s, InlineTemps.SIMPLE):
            return [s]
        if isinstance(s, (ast.If, ast.While)):
            return [s.test]
        if isinstance(s, (ast.For, ast.AsyncFor)):
            return [s.iter]
        if isinstance(s, (ast.With, ast.AsyncWith)):
            return [it.context_expr for it in s.items]
        return []

    @staticmethod
    def _single_plain_use(exprs, name):
        """The Load of `name` inside exprs, when it is not under a lambda / comprehension / nested scope; else None."""
        found = []

        def walk(n, shielded):
            if isinstance(n, ast.Name) and n.id == name and isinstance(n.ctx, ast.Load):
                found.append((n, shielded))
            sh = shielded or isinstance(n, (ast.Lambda, ast.ListComp, ast.SetComp, ast.DictComp, ast.GeneratorExp, ast.FunctionDef, ast.AsyncFunctionDef, ast.ClassDef))
            for c in ast.iter_child_nodes(n):
                walk(c, sh)
        for e in exprs:
            walk(e, False)
        if len(found) == 1 and not found[0][1]:
            return found[0][0]
        return None

    def _block(self, stmts):
        out = []
        i = 0
        while i < len(stmts):
            s = stmts[i]
            for f in ('body', 'orelse', 'finalbody'):
                b = getattr(s, f, None)
                if isinstance(b, list) and b and isinstance(b[0], ast.stmt) and not isinstance(s, (ast.FunctionDef, ast.AsyncFunctionDef, ast.ClassDef)):
                    setattr(s, f, self._block(b))
            if isinstance(s, ast.Try):
                for h in s.handlers:
                    h.body = self._block(h.body)
            nxt = stmts[i + 1] if i + 1 < len(stmts) else None
            if nxt is not None and isinstance(s, ast.Assign) and len(s.targets) == 1 and isinstance(s.targets[0], ast.Name) and s.targets[0].id in self._cand \
                    and not isinstance(s.value, (ast.Yield, ast.YieldFrom, ast.Await, ast.NamedExpr, ast.ListComp, ast.SetComp, ast.DictComp, ast.GeneratorExp, ast.List, ast.Dict, ast.Set)) \
                    and not isinstance(nxt, ast.While):        # a while test is re-evaluated
                name = s.targets[0].id
                use = self._single_plain_use(self._own_exprs(nxt), name)
                if use is not None and not (isinstance(nxt, ast.AugAssign) and isinstance(nxt.target, ast.Name) and nxt.target.id == name):
                    value = s.value

                    class R(ast.NodeTransformer):
                        def visit_Name(self_, n):
                            return ast.copy_location(value, n) if n is use else n
                    # rewrite only the own expressions of the next statement
                    if isinstance(nxt, InlineTemps.SIMPLE):
                        new_nxt = R().visit(nxt)
                    elif isinstance(nxt, ast.If):
                        nxt.test = R().visit(nxt.test)
                        new_nxt = nxt
                    elif isinstance(nxt, (ast.For, ast.AsyncFor)):
                        nxt.iter = R().visit(nxt.iter)
                        new_nxt = nxt
                    else:
                        for it in nxt.items:
                            it.context_expr = R().visit(it.context_expr)
                        new_nxt = nxt
                    stmts = stmts[:i] + [new_nxt] + stmts[i + 2:]
                    self._cand.discard(name)
                    self._changed = True
                    continue     # re-examine the merged statement at position i (it may itself be a single-use definition)
            out.append(s)
            i += 1
        return out


class Canon2(ast.NodeTransformer):
    """N10: if c: x = A else: x = B  ->  x = A if c else B ;  if c: return A else: return B  ->  return A if c else B
            (also with the else arm dedented: if c: return A; return B  as the LAST two statements of a block)
    N12: xs = []; for v in it: [if f:] xs.append(e)   ->   xs = [e for v in it [if f]]     (adjacent statements, single append)"""

    def _block(self, stmts):
        out = []
        i = 0
        while i < len(stmts):
            s = stmts[i]
            nxt = stmts[i + 1] if i + 1 < len(stmts) else None
            # N12
            if isinstance(s, ast.Assign) and len(s.targets) == 1 and isinstance(s.targets[0], ast.Name) and isinstance(s.value, ast.List) and not s.value.elts \
                    and isinstance(nxt, ast.For) and not nxt.orelse and len(nxt.body) == 1:
                xs = s.targets[0].id
                body, ifs = nxt.body[0], []
                while isinstance(body, ast.If) and not body.orelse and len(body.body) == 1:
                    ifs.append(body.test)
                    body = body.body[0]
                if isinstance(body, ast.Expr) and isinstance(body.value, ast.Call):
                    c = body.value
                    used = {n.id for x in [nxt.iter] + ifs + list(c.args) for n in ast.walk(x) if isinstance(n, ast.Name)}
                    if isinstance(c.func, ast.Attribute) and c.func.attr == 'append' and isinstance(c.func.value, ast.Name) and c.func.value.id == xs and len(c.args) == 1 \
                            and not c.keywords and xs not in used:
                        comp = ast.ListComp(elt=c.args[0], generators=[ast.comprehension(target=nxt.target, iter=nxt.iter, ifs=ifs, is_async=0)])
                        out.append(ast.copy_location(ast.Assign(targets=[ast.Name(id=xs, ctx=ast.Store())], value=comp), s))
                        i += 2
                        continue
            # N10 with dedented else: if c: return A ; return B   (last two statements of the block)
            if isinstance(s, ast.If) and not s.orelse and len(s.body) == 1 and isinstance(s.body[0], ast.Return) and s.body[0].value is not None \
                    and isinstance(nxt, ast.Return) and nxt.value is not None and i + 2 == len(stmts):
                out.append(ast.copy_location(ast.Return(value=ast.IfExp(test=s.test, body=s.body[0].value, orelse=nxt.value)), s))
                i += 2
                continue
            out.append(s)
            i += 1
        return out

    def generic_visit(self, node):
        super().generic_visit(node)
        for f in ('body', 'orelse', 'finalbody'):
            b = getattr(node, f, None)
            if isinstance(b, list) and b and isinstance(b[0], ast.stmt):
                setattr(node, f, self._block(b))
        return node

    def visit_If(self, node):
        self.generic_visit(node)
        if len(node.body) == 1 and len(node.orelse) == 1:
            a, b = node.body[0], node.orelse[0]
            if isinstance(a, ast.Return) and isinstance(b, ast.Return) and a.value is not None and b.value is not None:
                return ast.copy_location(ast.Return(value=ast.IfExp(test=node.test, body=a.value, orelse=b.value)), node)
            if isinstance(a, ast.Assign) and isinstance(b, ast.Assign) and len(a.targets) == 1 and len(b.targets) == 1 and isinstance(a.targets[0], ast.Name) \
                    and isinstance(b.targets[0], ast.Name) and a.targets[0].id == b.targets[0].id:
                return ast.copy_location(ast.Assign(targets=[ast.Name(id=a.targets[0].id, ctx=ast.Store())], value=ast.IfExp(test=node.test, body=a.value, orelse=b.value)), node)
        return node


class Canon3(ast.NodeTransformer):
    """N14: a call whose callee is chosen by a conditional expression is the conditional of the two calls:
    (A if c else B)(args)  ->  A(args) if c else B(args); as an expression statement it becomes if c: A(args) else: B(args),
    so that each arm is an ordinary call the other passes (helper expansion, call resolution) can read."""

    def visit_Call(self, node):
        self.generic_visit(node)
        if isinstance(node.func, ast.IfExp) and all(isinstance(x, (ast.Name, ast.Attribute)) for x in (node.func.body, node.func.orelse)):
            import copy
            a = ast.copy_location(ast.Call(func=node.func.body, args=node.args, keywords=node.keywords), node)
            b = ast.copy_location(ast.Call(func=node.func.orelse, args=copy.deepcopy(node.args), keywords=copy.deepcopy(node.keywords)), node)
            return ast.copy_location(ast.IfExp(test=node.func.test, body=a, orelse=b), node)
        return node

    def visit_Expr(self, node):
        self.generic_visit(node)
        if isinstance(node.value, ast.IfExp) and isinstance(node.value.body, ast.Call) and isinstance(node.value.orelse, ast.Call):
            v = node.value
            return ast.copy_location(ast.If(test=v.test, body=[ast.copy_location(ast.Expr(value=v.body), node)], orelse=[ast.copy_location(ast.Expr(value=v.orelse), node)]), node)
        return node


def canonicalise(tree, second_stage=True):
    """second_stage (N9/N10/N12) is for plain Python modules; the Cython kernels keep their statement structure for the table rules."""
    tree = ast.fix_missing_locations(Canon().visit(tree))
    if N9_ENABLED and second_stage:
        tree = ast.fix_missing_locations(Canon2().visit(tree))
        tree = ast.fix_missing_locations(Canon().visit(tree))        # polarity of the new conditional expressions
        tree = ast.fix_missing_locations(InlineTemps().visit(tree))
        tree = ast.fix_missing_locations(Canon3().visit(tree))
    return tree
