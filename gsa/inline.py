"""N8: see through helper extraction.

A function that is NOT in the reference symbol table (gsa/known_symbols.json: every def of the reference tree, nested
ones included) is a helper somebody extracted.  The rules are written about the anchor functions, so calls to such new
helpers are expanded in place before any rule runs (module-level functions of the same module, methods of the same class
called through self/cls, and defs nested in the caller).  Functions of the reference tree are never inlined: they are the
anchors.  What cannot be expanded soundly is left alone (the rule that meets the call then decides or reports undecided).

Expansion forms
  return h(a)        -> body of h, its returns kept                       (any control flow)
  x = h(a)           -> body of h, `return e` -> `x = e`                   (returns in tail position only)
  h(a)               -> body of h, returns dropped                         (tail position only)
  ... h(a) ...       -> expression substitution when h is a single `return <expr>`; otherwise hoisted to `t = h(a)` first
                        when the call is evaluated unconditionally by the statement
  for x in g(a): B   -> body of generator g with `yield e` -> `x = e; B`   (single yield site; break/continue in B only when
                        they mean the same thing inside g's loop)
Parameters are substituted by the argument expressions (simple arguments) or bound to fresh locals; locals of the helper
that collide with names of the caller are renamed.
"""
import ast
import copy
import json
import os

HERE = os.path.dirname(os.path.abspath(__file__))
_KNOWN = None


def known_symbols():
    global _KNOWN
    if _KNOWN is None:
        with open(os.path.join(HERE, 'known_symbols.json')) as f:
            _KNOWN = set(json.load(f)['symbols'])
    return _KNOWN


def enumerate_defs(tree, modname):
    """(qualname, node, owner_kind, owner_node) for every def in the module; nested defs as a.b.<locals>.c"""
    out = []

    def walk(body, prefix, kind, owner):
        for s in body:
            if isinstance(s, (ast.FunctionDef, ast.AsyncFunctionDef)):
                q = f'{prefix}.{s.name}'
                out.append((q, s, kind, owner))
                walk_nested(s, q)
            elif isinstance(s, ast.ClassDef):
                walk(s.body, f'{prefix}.{s.name}', 'class', s)
            else:
                for f in ('body', 'orelse', 'finalbody'):
                    b = getattr(s, f, None)
                    if isinstance(b, list) and b and isinstance(b[0], ast.stmt):
                        walk(b, prefix, kind, owner)
                if isinstance(s, ast.Try):
                    for h in s.handlers:
                        walk(h.body, prefix, kind, owner)

    def walk_nested(func, q):
        walk(func.body, f'{q}.<locals>', 'nested', func)

    walk(tree.body, modname, 'module', tree)
    return out


class NotInlinable(Exception):
    pass


# Method names defined by more than one class of the analysed package.  A call self.m(...) / cls.m(...) of such a method is
# dynamically dispatched: which body runs depends on the class of the receiver (a subclass may override a newly extracted hook),
# so it is NOT one body that could be expanded in place.  Filled by scan_method_names(); None = only the current module is known.
_DISPATCHED = None


def _method_owners(tree, tag, owners):
    for n in ast.walk(tree):
        if isinstance(n, ast.ClassDef):
            for s in n.body:
                if isinstance(s, (ast.FunctionDef, ast.AsyncFunctionDef)):
                    owners.setdefault(s.name, set()).add(f'{tag}:{n.name}')


def scan_method_names(src_root):
    """Record which method names are defined by several classes anywhere under src_root (overridable hooks)."""
    global _DISPATCHED
    owners = {}
    for dirpath, dirnames, filenames in os.walk(src_root):
        dirnames[:] = [d for d in dirnames if d != '__pycache__']
        for fn in filenames:
            if fn.endswith('.py'):
                try:
                    with open(os.path.join(dirpath, fn), encoding='utf-8') as f:
                        _method_owners(ast.parse(f.read()), os.path.join(dirpath, fn), owners)
                except (SyntaxError, OSError, ValueError):
                    continue
    _DISPATCHED = {n for n, o in owners.items() if len(o) > 1}
    return _DISPATCHED


def _is_generator(func):
    for n in _walk_own(func):
        if isinstance(n, (ast.Yield, ast.YieldFrom)):
            return True
    return False


def _walk_own(func):
    """Nodes of a function body, not descending into nested defs / lambdas / classes."""
    stack = list(func.body)
    while stack:
        n = stack.pop()
        yield n
        for c in ast.iter_child_nodes(n):
            if isinstance(c, (ast.FunctionDef, ast.AsyncFunctionDef, ast.ClassDef, ast.Lambda)):
                continue
            stack.append(c)


def _body_no_doc(func):
    b = func.body
    if b and isinstance(b[0], ast.Expr) and isinstance(b[0].value, ast.Constant) and isinstance(b[0].value.value, str):
        b = b[1:]
    return b


def _stored_names(nodes):
    out = set()
    for top in nodes:
        for n in ast.walk(top):
            if isinstance(n, ast.Name) and isinstance(n.ctx, (ast.Store, ast.Del)):
                out.add(n.id)
            elif isinstance(n, ast.ExceptHandler) and n.name:
                out.add(n.name)
            elif isinstance(n, ast.alias):
                out.add((n.asname or n.name).split('.')[0])
    return out


def _all_names(node):
    out = set()
    for n in ast.walk(node):
        if isinstance(n, ast.Name):
            out.add(n.id)
        elif isinstance(n, ast.arg):
            out.add(n.arg)
    return out


def _simple_arg(e):
    if isinstance(e, (ast.Name, ast.Constant)):
        return True
    if isinstance(e, ast.Attribute):
        return _simple_arg(e.value)
    if isinstance(e, ast.UnaryOp) and isinstance(e.op, ast.USub):
        return _simple_arg(e.operand)
    if isinstance(e, ast.Tuple):
        return all(_simple_arg(x) for x in e.elts)
    return False


def _pure_arg(e):
    """No call / await / yield / walrus inside: duplicating or moving the expression cannot change effects."""
    for n in ast.walk(e):
        if isinstance(n, (ast.Call, ast.Await, ast.Yield, ast.YieldFrom, ast.NamedExpr, ast.Lambda, ast.ListComp, ast.SetComp, ast.DictComp, ast.GeneratorExp)):
            return False
    return True


class _Subst(ast.NodeTransformer):
    def __init__(self, mapping, rename):
        self.mapping = mapping      # name -> expression
        self.rename = rename        # name -> new name

    def visit_Name(self, node):
        if node.id in self.mapping and isinstance(node.ctx, ast.Load):
            return copy.deepcopy(self.mapping[node.id])
        if node.id in self.rename:
            return ast.copy_location(ast.Name(id=self.rename[node.id], ctx=node.ctx), node)
        return node

    def visit_ExceptHandler(self, node):
        self.generic_visit(node)
        if node.name in self.rename:
            node.name = self.rename[node.name]
        return node


def _contains_return(stmts):
    for s in stmts:
        for n in _walk_own(ast.Module(body=[s], type_ignores=[])):
            if isinstance(n, ast.Return):
                return True
    return False


def _tail(stmts, make, fall=None):
    """Rewrite a statement list whose returns are all in tail position: `return e` -> make(e) (a list of statements).
    Returns (new statements, always_terminates).  `fall()` gives the statements for the implicit `return None` where control
    falls off the end of a branch while a sibling branch returned: they must go INTO that branch (appending them after the
    whole `if` would overwrite the value bound by the branch that returned)."""
    out = []
    for i, s in enumerate(stmts):
        if isinstance(s, ast.Return):
            out.extend(make(s))
            return out, True
        if isinstance(s, ast.Raise) or (isinstance(s, ast.Assert) and isinstance(s.test, ast.Constant) and not s.test.value):
            out.append(s)
            return out, True
        if not _contains_return([s]):
            out.append(s)
            continue
        rest = stmts[i + 1:]
        if isinstance(s, ast.If):
            b, bt = _tail(s.body, make)
            e, et = _tail(s.orelse, make) if s.orelse else ([], False)
            if bt and et:
                out.append(ast.copy_location(ast.If(test=s.test, body=b, orelse=e), s))
                return out, True
            if bt and not et:
                e2, t2 = _tail(list(s.orelse) + rest, make, fall)
                if not t2 and fall is not None:
                    e2, t2 = e2 + fall(), True
                out.append(ast.copy_location(ast.If(test=s.test, body=b or [ast.Pass()], orelse=e2), s))
                return out, t2
            if et and not bt:
                b2, t2 = _tail(list(s.body) + rest, make, fall)
                if not t2 and fall is not None:
                    b2, t2 = b2 + fall(), True
                out.append(ast.copy_location(ast.If(test=s.test, body=b2 or [ast.Pass()], orelse=e), s))
                return out, t2
            raise NotInlinable('return on a branch that does not always return')
        if isinstance(s, ast.With) and not rest:
            b, bt = _tail(s.body, make)
            out.append(ast.copy_location(ast.With(items=s.items, body=b), s))
            return out, bt
        if isinstance(s, ast.Try) and not rest and not s.orelse and not _contains_return(s.finalbody):
            # try in tail position whose body and every handler end in return / raise: `return e` inside the protected
            # region becomes the binding inside the same protected region (binding a name cannot raise)
            b, bt = _tail(s.body, make)
            hs = []
            for h in s.handlers:
                hb, ht = _tail(h.body, make)
                if not ht:
                    raise NotInlinable('except handler that falls through in a try containing return')
                hs.append(ast.copy_location(ast.ExceptHandler(type=h.type, name=h.name, body=hb or [ast.Pass()]), h))
            if not bt:
                raise NotInlinable('try body that falls through in a try containing return')
            out.append(ast.copy_location(ast.Try(body=b or [ast.Pass()], handlers=hs, orelse=[], finalbody=s.finalbody), s))
            return out, True
        raise NotInlinable(f'return inside {type(s).__name__}')
    return out, False


class Helper:
    def __init__(self, qualname, node, kind, owner):
        self.qualname = qualname
        self.node = node
        self.kind = kind          # module | class | nested
        self.owner = owner
        self.generator = _is_generator(node)
        self.static = any(isinstance(d, ast.Name) and d.id == 'staticmethod' for d in node.decorator_list)
        self.classm = any(isinstance(d, ast.Name) and d.id == 'classmethod' for d in node.decorator_list)
        other = [d for d in node.decorator_list if not (isinstance(d, ast.Name) and d.id in ('staticmethod', 'classmethod'))]
        a = node.args
        self.ok = (not other and not isinstance(node, ast.AsyncFunctionDef) and a.vararg is None and a.kwarg is None
                   and not any(isinstance(n, (ast.Global, ast.Nonlocal)) for n in _walk_own(node)))
        body = _body_no_doc(node)
        self.single_expr = body[0].value if len(body) == 1 and isinstance(body[0], ast.Return) and body[0].value is not None else None


class Inliner:
    def __init__(self, tree, modname, known):
        self.tree = tree
        self.modname = modname
        self.count = 0
        self.log = []
        defs = enumerate_defs(tree, modname)
        self.helpers = {}
        for q, node, kind, owner in defs:
            if q not in known:
                h = Helper(q, node, kind, owner)
                if h.ok:
                    self.helpers[id(node)] = h
        self.defs = defs
        self.module_helpers = {h.node.name: h for h in self.helpers.values() if h.kind == 'module'}
        self.module_classes = {c.name: c for c in tree.body if isinstance(c, ast.ClassDef)}
        own = {}
        _method_owners(tree, modname, own)
        self.local_dispatched = {n for n, o in own.items() if len(o) > 1}
        self._fresh = 0

    # ------------------------------------------------------------------ resolution of a call to a helper
    def lookup(self, call, host, host_cls, nested):
        f = call.func
        if isinstance(f, ast.Name):
            if f.id in nested:
                return nested[f.id], None
            h = self.module_helpers.get(f.id)
            if h is not None and f.id not in self._host_locals:
                return h, None
        elif isinstance(f, ast.Attribute) and isinstance(f.value, ast.Name):
            recv = f.value.id
            if host_cls is not None:
                hp = host.args.posonlyargs + host.args.args
                first = hp[0].arg if hp else None
                if recv == first and recv in ('self', 'cls') or recv == host_cls.name:
                    dispatched = recv != host_cls.name and f.attr in (self.local_dispatched if _DISPATCHED is None else _DISPATCHED | self.local_dispatched)
                    for h in self.helpers.values():
                        if h.kind == 'class' and h.owner is host_cls and h.node.name == f.attr and not dispatched:
                            return h, f.value
            # ClassName.new_classmethod(...) / ClassName.new_staticmethod(...) from anywhere in the module
            if recv in self.module_classes and recv not in self._host_locals:
                for h in self.helpers.values():
                    if h.kind == 'class' and h.owner is self.module_classes[recv] and h.node.name == f.attr and (h.static or h.classm):
                        return h, f.value
        return None, None

    # ------------------------------------------------------------------ parameter binding
    def bind(self, h, call, recv, host_names, keep_param=None):
        a = h.node.args
        params = [x.arg for x in a.posonlyargs + a.args]
        defaults = dict(zip(params[len(params) - len(a.defaults):], a.defaults))
        kwonly = [x.arg for x in a.kwonlyargs]
        for x, d in zip(a.kwonlyargs, a.kw_defaults):
            if d is not None:
                defaults[x.arg] = d
        if any(isinstance(x, ast.Starred) for x in call.args) or any(k.arg is None for k in call.keywords):
            raise NotInlinable('star arguments')
        bound = {}
        pos = list(params)
        if h.kind == 'class' and not h.static:
            if not pos:
                raise NotInlinable('method without receiver parameter')
            bound[pos.pop(0)] = recv if not h.classm else recv
        if len(call.args) > len(pos):
            raise NotInlinable('too many positional arguments')
        for p, v in zip(pos, call.args):
            bound[p] = v
        for k in call.keywords:
            if k.arg in bound or k.arg not in params + kwonly:
                raise NotInlinable('keyword mismatch')
            bound[k.arg] = k.value
        for p in params + kwonly:
            if p not in bound:
                if p not in defaults:
                    raise NotInlinable(f'missing argument {p}')
                bound[p] = defaults[p]
        body = _body_no_doc(h.node)
        stored = _stored_names(body)
        loads = {}
        for top in body:
            for n in ast.walk(top):
                if isinstance(n, ast.Name) and isinstance(n.ctx, ast.Load):
                    loads[n.id] = loads.get(n.id, 0) + 1
        mapping, prelude, rename = {}, [], {}
        for p, v in bound.items():
            if p in stored:
                if keep_param is not None and isinstance(v, ast.Name) and v.id == keep_param:
                    rename[p] = v.id         # x = h(x): the parameter IS the caller's variable
                    continue
                if isinstance(v, ast.Name) and self._host_load_counts.get(v.id, 0) == 1 and v.id not in stored - {p}:
                    rename[p] = v.id         # the caller reads that variable only in this call: the helper may go on using it
                    continue
                new = self.fresh(p, host_names)
                rename[p] = new
                prelude.append(ast.Assign(targets=[ast.Name(id=new, ctx=ast.Store())], value=copy.deepcopy(v)))
            elif _simple_arg(v) or (_pure_arg(v) and loads.get(p, 0) <= 1) or loads.get(p, 0) == 0:
                mapping[p] = v
            else:
                new = p if p not in host_names else self.fresh(p, host_names)
                if new != p:
                    rename[p] = new
                prelude.append(ast.Assign(targets=[ast.Name(id=new, ctx=ast.Store())], value=copy.deepcopy(v)))
                host_names.add(new)
        return mapping, prelude, rename, stored - set(bound)

    def fresh(self, base, host_names):
        while True:
            self._fresh += 1
            n = f'{base}__i{self._fresh}'
            if n not in host_names:
                host_names.add(n)
                return n

    def instantiate(self, h, call, recv, host_names, keep_local=None, keep_param=None):
        mapping, prelude, rename, locals_ = self.bind(h, call, recv, host_names, keep_param)
        for loc in sorted(locals_):
            if loc in host_names and loc != keep_local:
                rename[loc] = self.fresh(loc, host_names)
            else:
                host_names.add(loc)
        body = [_Subst(mapping, rename).visit(copy.deepcopy(s)) for s in _body_no_doc(h.node)]
        for s in prelude:
            ast.copy_location(s, call)
        return prelude, body

    # ------------------------------------------------------------------ statement-level expansion
    def expand_stmt(self, s, host, host_cls, nested, host_names):
        """Returns a list of statements replacing s (or None when nothing was inlined)."""
        # a. return h(...)
        if isinstance(s, ast.Return) and isinstance(s.value, ast.Call):
            h, recv = self.lookup(s.value, host, host_cls, nested)
            if h is not None and not h.generator:
                pre, body = self.instantiate(h, s.value, recv, host_names)
                out = pre + body
                if not out or not self._always_exits(out):
                    out.append(ast.copy_location(ast.Return(value=None), s))
                return self.done(h, out, s)
        # b. x = h(...)
        if isinstance(s, (ast.Assign, ast.AnnAssign)) and isinstance(s.value, ast.Call):
            h, recv = self.lookup(s.value, host, host_cls, nested)
            if h is not None and not h.generator:
                targets = s.targets if isinstance(s, ast.Assign) else [s.target]
                single = targets[0].id if len(targets) == 1 and isinstance(targets[0], ast.Name) else None
                arg_names = set()
                for x in list(s.value.args) + [k.value for k in s.value.keywords]:
                    arg_names |= _all_names(x)
                keep_local = single if single is not None and single not in arg_names else None
                pre, body = self.instantiate(h, s.value, recv, host_names, keep_local=keep_local, keep_param=single)

                def make(r):
                    v = r.value if r.value is not None else ast.Constant(value=None)
                    if single is not None and isinstance(v, ast.Name) and v.id == single:
                        return []       # x = x
                    return self._assign(targets, v, r)
                new, term = _tail(body, make, fall=lambda: self._assign(targets, ast.Constant(value=None), s))
                if not term:
                    new += self._assign(targets, ast.Constant(value=None), s)
                return self.done(h, pre + new, s)
        # c. h(...)
        if isinstance(s, ast.Expr) and isinstance(s.value, ast.Call):
            h, recv = self.lookup(s.value, host, host_cls, nested)
            if h is not None and not h.generator:
                pre, body = self.instantiate(h, s.value, recv, host_names)

                def make(r):
                    if r.value is None or isinstance(r.value, (ast.Constant, ast.Name)):
                        return []
                    return [ast.copy_location(ast.Expr(value=r.value), r)]
                new, term = _tail(body, make)
                return self.done(h, (pre + new) or [ast.copy_location(ast.Pass(), s)], s)
        # e. for x in g(...): body
        if isinstance(s, ast.For) and isinstance(s.iter, ast.Call) and not s.orelse:
            h, recv = self.lookup(s.iter, host, host_cls, nested)
            if h is not None and h.generator:
                return self.done(h, self.expand_generator_loop(h, s, recv, host_names), s)
        # d. nested in a larger expression
        return self.expand_in_expr(s, host, host_cls, nested, host_names)

    def _assign(self, targets, value, loc):
        if len(targets) == 1 and isinstance(targets[0], ast.Tuple) and isinstance(value, ast.Tuple) and len(targets[0].elts) == len(value.elts) \
                and all(isinstance(t, ast.Name) for t in targets[0].elts) and not any(isinstance(v, ast.Starred) for v in value.elts):
            tnames = {t.id for t in targets[0].elts}
            if not any(tnames & _all_names(v) for v in value.elts):
                return [ast.copy_location(ast.Assign(targets=[copy.deepcopy(t)], value=v), loc) for t, v in zip(targets[0].elts, value.elts)
                        if not (isinstance(v, ast.Name) and v.id == t.id)]
        return [ast.copy_location(ast.Assign(targets=[copy.deepcopy(t) for t in targets], value=value), loc)]

    @staticmethod
    def _always_exits(stmts):
        if not stmts:
            return False
        last = stmts[-1]
        if isinstance(last, (ast.Return, ast.Raise)):
            return True
        if isinstance(last, ast.If) and last.orelse:
            return Inliner._always_exits(last.body) and Inliner._always_exits(last.orelse)
        if isinstance(last, ast.With):
            return Inliner._always_exits(last.body)
        return False

    def done(self, h, stmts, at=None):
        self.count += 1
        self.log.append(h.qualname)
        line = getattr(at, 'lineno', None)
        for s in stmts:
            ast.fix_missing_locations(s)
            if line is not None:
                # expanded statements sit AT the call site: rules that order statements by line keep working, reports name the call site
                for n in ast.walk(s):
                    if hasattr(n, 'lineno'):
                        n.lineno = line
                        if hasattr(n, 'end_lineno'):
                            n.end_lineno = line
        return stmts

    # ------------------------------------------------------------------ expression-level expansion
    def own_exprs(self, s):
        if isinstance(s, (ast.If, ast.While)):
            return [('test', s.test)]
        if isinstance(s, (ast.For, ast.AsyncFor)):
            return [('iter', s.iter)]
        if isinstance(s, (ast.With, ast.AsyncWith)):
            return [(('item', i), it.context_expr) for i, it in enumerate(s.items)]
        if isinstance(s, (ast.Try, ast.FunctionDef, ast.AsyncFunctionDef, ast.ClassDef)) or type(s).__name__ in ('Match', 'TryStar'):
            return []
        return [('stmt', s)]

    def expand_in_expr(self, s, host, host_cls, nested, host_names):
        changed = False
        hoisted = []
        inl = self

        class T(ast.NodeTransformer):
            def __init__(self):
                self.cond = 0

            def visit_Lambda(self, node):
                self.cond += 1
                self.generic_visit(node)
                self.cond -= 1
                return node
            visit_ListComp = visit_SetComp = visit_DictComp = visit_GeneratorExp = visit_Lambda

            def visit_IfExp(self, node):
                node.test = self.visit(node.test)
                self.cond += 1
                node.body = self.visit(node.body)
                node.orelse = self.visit(node.orelse)
                self.cond -= 1
                return node

            def visit_BoolOp(self, node):
                node.values[0] = self.visit(node.values[0])
                self.cond += 1
                node.values[1:] = [self.visit(v) for v in node.values[1:]]
                self.cond -= 1
                return node

            def visit_Call(self, node):
                nonlocal changed
                self.generic_visit(node)
                h, recv = inl.lookup(node, host, host_cls, nested)
                if h is None or h.generator:
                    return node
                try:
                    if h.single_expr is not None:
                        mapping, prelude, rename, locals_ = inl.bind(h, node, recv, host_names)
                        if not prelude and not locals_:
                            changed = True
                            inl.count += 1
                            inl.log.append(h.qualname)
                            return ast.copy_location(_Subst(mapping, rename).visit(copy.deepcopy(h.single_expr)), node)
                    if self.cond == 0 and not isinstance(s, ast.While):
                        tmp = inl.fresh(h.node.name.lstrip('_') + '_rv', host_names)
                        asg = ast.copy_location(ast.Assign(targets=[ast.Name(id=tmp, ctx=ast.Store())], value=node), node)
                        rep = inl.expand_stmt(asg, host, host_cls, nested, host_names)
                        if rep is not None:
                            hoisted.extend(rep)
                            changed = True
                            return ast.copy_location(ast.Name(id=tmp, ctx=ast.Load()), node)
                except NotInlinable:
                    pass
                return node

        t = T()
        for key, e in self.own_exprs(s):
            if key == 'stmt':
                for fname, val in ast.iter_fields(s):
                    if isinstance(val, ast.AST):
                        setattr(s, fname, t.visit(val))
                    elif isinstance(val, list):
                        setattr(s, fname, [t.visit(v) if isinstance(v, ast.AST) else v for v in val])
            elif key == 'test':
                s.test = t.visit(s.test)
            elif key == 'iter':
                s.iter = t.visit(s.iter)
            else:
                s.items[key[1]].context_expr = t.visit(s.items[key[1]].context_expr)
        if not changed:
            return None
        for x in hoisted:
            ast.fix_missing_locations(x)
        return hoisted + [ast.fix_missing_locations(s)]

    # ------------------------------------------------------------------ generator loops
    def expand_generator_loop(self, h, loop, recv, host_names):
        yields = [n for n in _walk_own(h.node) if isinstance(n, (ast.Yield, ast.YieldFrom))]
        if len(yields) != 1 or isinstance(yields[0], ast.YieldFrom):
            raise NotInlinable('generator with several yield sites / yield from')
        if any(isinstance(n, ast.Return) for n in _walk_own(h.node)):
            raise NotInlinable('return inside generator body')
        pre, body = self.instantiate(h, loop.iter, recv, host_names)
        path = self._find_yield(body, [])
        if path is None:
            raise NotInlinable('yield is not an expression statement')
        enclosing = [x[0] for x in path if x[0] is not None]
        loops = [x for x in enclosing if isinstance(x, (ast.For, ast.While))]
        if any(isinstance(x, ast.Try) for x in enclosing) or any(x.orelse for x in loops):
            raise NotInlinable('yield inside try / loop with else')
        ystmt_list, yidx = path[-1][1], path[-1][2]
        y = ystmt_list[yidx].value
        level = list(self._loop_level(loop.body))
        if any(isinstance(n, ast.Break) for n in level):
            # break must end the generator: exactly one enclosing loop, and it is the last statement of g
            if len(loops) != 1 or body[-1] is not loops[0]:
                raise NotInlinable('break in the loop body cannot be mapped')
        if any(isinstance(n, ast.Continue) for n in level):
            # continue resumes the generator: the yield must be the last statement of its innermost loop body
            if not loops or not (ystmt_list is loops[-1].body and yidx == len(ystmt_list) - 1):
                raise NotInlinable('continue in the loop body cannot be mapped')
        val = y.value if y.value is not None else ast.Constant(value=None)
        bind = self._assign([loop.target], val, ystmt_list[yidx])
        ystmt_list[yidx:yidx + 1] = bind + copy.deepcopy(loop.body)
        return pre + body

    @staticmethod
    def _loop_level(stmts):
        """Nodes at the loop level of a loop body (not inside nested loops / defs)."""
        stack = list(stmts)
        while stack:
            n = stack.pop()
            yield n
            if isinstance(n, (ast.For, ast.While, ast.AsyncFor)):
                stack.extend(n.orelse)
                continue
            for c in ast.iter_child_nodes(n):
                if isinstance(c, (ast.FunctionDef, ast.AsyncFunctionDef, ast.ClassDef, ast.Lambda)):
                    continue
                stack.append(c)

    def _find_yield(self, stmts, path):
        for i, s in enumerate(stmts):
            if isinstance(s, ast.Expr) and isinstance(s.value, ast.Yield):
                return path + [(None, stmts, i)]
            if isinstance(s, (ast.FunctionDef, ast.AsyncFunctionDef, ast.ClassDef)):
                continue
            for f in ('body', 'orelse', 'finalbody'):
                b = getattr(s, f, None)
                if isinstance(b, list) and b and isinstance(b[0], ast.stmt):
                    r = self._find_yield(b, path + [(s, stmts, i)])
                    if r is not None:
                        return r
            if isinstance(s, ast.Try):
                for hd in s.handlers:
                    r = self._find_yield(hd.body, path + [(s, stmts, i)])
                    if r is not None:
                        return r
        return None

    # ------------------------------------------------------------------ driver
    def process_block(self, stmts, host, host_cls, nested, host_names, depth=0):
        out = []
        for s in stmts:
            if isinstance(s, (ast.FunctionDef, ast.AsyncFunctionDef, ast.ClassDef)):
                out.append(s)
                continue
            try:
                rep = self.expand_stmt(s, host, host_cls, nested, host_names) if depth < 4 else None
            except NotInlinable:
                rep = None
            if rep is not None:
                # expanded code may itself call helpers
                out.extend(self.process_block(rep, host, host_cls, nested, host_names, depth + 1))
                continue
            for f in ('body', 'orelse', 'finalbody'):
                b = getattr(s, f, None)
                if isinstance(b, list) and b and isinstance(b[0], ast.stmt):
                    setattr(s, f, self.process_block(b, host, host_cls, nested, host_names, depth))
            if isinstance(s, ast.Try):
                for hd in s.handlers:
                    hd.body = self.process_block(hd.body, host, host_cls, nested, host_names, depth)
            out.append(s)
        return out

    def run(self):
        if not self.helpers:
            return 0
        helper_nodes = {id(h.node) for h in self.helpers.values()}
        # helpers first (so that helper-in-helper is expanded before the helper is copied), then everything else
        order = [d for d in self.defs if id(d[1]) in helper_nodes] + [d for d in self.defs if id(d[1]) not in helper_nodes]
        for q, node, kind, owner in order:
            nested, bound = {}, {}
            for st in ast.walk(node):
                if st is not node and isinstance(st, (ast.FunctionDef, ast.AsyncFunctionDef, ast.ClassDef)):
                    bound[st.name] = bound.get(st.name, 0) + 1
                if st is not node and isinstance(st, (ast.FunctionDef,)) and id(st) in self.helpers and self.helpers[id(st)].kind == 'nested' \
                        and self.helpers[id(st)].owner is node:
                    nested[st.name] = self.helpers[id(st)]
            # a local name that is bound more than once (one def per arm of an if/else, a def that is reassigned) does not denote
            # ONE function: which body a call runs depends on the path, so it is not expanded here (the rules see the call)
            rebound = _stored_names(node.body)
            nested = {k: v for k, v in nested.items() if bound.get(k, 0) == 1 and k not in rebound}
            host_cls = owner if kind == 'class' else None
            host_names = _all_names(node)
            self._host_locals = _stored_names(node.body) | {a.arg for a in node.args.posonlyargs + node.args.args + node.args.kwonlyargs}
            self._host_locals -= set(nested)
            self._host_load_counts = {}
            for nn in ast.walk(node):
                if isinstance(nn, ast.Name) and isinstance(nn.ctx, ast.Load):
                    self._host_load_counts[nn.id] = self._host_load_counts.get(nn.id, 0) + 1
            me = self.helpers.get(id(node))
            saved = None
            if me is not None:
                # no self-recursion
                saved = self.module_helpers.pop(node.name, None) if me.kind == 'module' else None
            node.body = self.process_block(node.body, node, host_cls, nested, host_names)
            if saved is not None:
                self.module_helpers[node.name] = saved
            if me is not None:
                self.helpers[id(node)] = Helper(q, node, kind, owner)
                if me.kind == 'module':
                    self.module_helpers[node.name] = self.helpers[id(node)]
        return self.count


def inline_new_helpers(tree, modname, known=None):
    """Expand calls to helpers that are not part of the reference symbol table.  Returns the list of inlined qualnames."""
    known = known_symbols() if known is None else known
    inl = Inliner(tree, modname, known)
    inl.run()
    return inl.log
