"""Tiny evaluator used for finite-domain table extraction (C07, C02): executes a statement list over an
environment whose values are concrete ints, affine forms (Aff) or opaque symbols.  Anything outside the
vocabulary raises Undecided (never guessed)."""
import ast

from .affine import Aff, NotAffine, path_of
from .report import Undecided


class Return(Exception):
    def __init__(self, value):
        self.value = value


class Opaque:
    """An uninterpreted value (e.g. the result of an unknown call) that may be stored but not computed with."""

    def __init__(self, text):
        self.text = text

    def __repr__(self):
        return f'<opaque {self.text}>'


def _lit(node):
    """Literal value; single-character str/bytes constants are C chars in the .pyx sources -> their ordinal."""
    v = node.value
    if isinstance(v, bool):
        return v
    if isinstance(v, int):
        return v
    if isinstance(v, str) and len(v) == 1:
        return ord(v)
    if isinstance(v, bytes) and len(v) == 1:
        return v[0]
    return v


class Mini:
    """env: name/path -> value.  hooks: on_read(path, index_value), on_store(target_path, index_value, value)."""

    def __init__(self, env, on_subscript_load=None, on_subscript_store=None, on_call=None):
        self.env = dict(env)
        self.on_load = on_subscript_load
        self.on_store = on_subscript_store
        self.on_call = on_call
        self.trace = []

    # ---------------------------------------------------------------- expressions
    def ev(self, e):
        if isinstance(e, ast.Constant):
            return _lit(e)
        if isinstance(e, ast.Name):
            if e.id in self.env:
                return self.env[e.id]
            raise Undecided(f'mini: unknown name {e.id}')
        if isinstance(e, ast.Attribute) or isinstance(e, ast.Subscript):
            p = path_of(e)
            if p is not None and p in self.env:
                return self.env[p]
            if isinstance(e, ast.Subscript):
                base = self.ev(e.value) if not isinstance(e.value, ast.Name) or e.value.id in self.env else None
                idx = self.ev(e.slice)
                if isinstance(base, (bytes, str, tuple, list)) and isinstance(idx, int):
                    v = base[idx]
                    return ord(v) if isinstance(v, str) and len(v) == 1 else v
                if isinstance(base, dict) and not isinstance(idx, (Aff, Opaque)):
                    if idx in base:
                        return base[idx]
                    # keys may be chars
                    for k, v in base.items():
                        kk = ord(k) if isinstance(k, str) and len(k) == 1 else (k[0] if isinstance(k, bytes) and len(k) == 1 else k)
                        if kk == idx:
                            return ord(v) if isinstance(v, str) and len(v) == 1 else v
                    raise KeyError(idx)
                if self.on_load is not None:
                    return self.on_load(self, e, idx)
            raise Undecided(f'mini: cannot evaluate {ast.unparse(e)}')
        if isinstance(e, ast.UnaryOp):
            v = self.ev(e.operand)
            if isinstance(e.op, ast.Not):
                return not self.truth(v)
            if isinstance(e.op, ast.USub):
                return v.scale(-1) if isinstance(v, Aff) else -v
            if isinstance(e.op, ast.Invert) and isinstance(v, int):
                return ~v
            raise Undecided(f'mini: unary {ast.unparse(e)}')
        if isinstance(e, ast.BinOp):
            return self.binop(e.op, self.ev(e.left), self.ev(e.right), e)
        if isinstance(e, ast.BoolOp):
            if isinstance(e.op, ast.And):
                for v in e.values:
                    if not self.truth(self.ev(v)):
                        return False
                return True
            for v in e.values:
                if self.truth(self.ev(v)):
                    return True
            return False
        if isinstance(e, ast.Compare):
            left = self.ev(e.left)
            for op, r in zip(e.ops, e.comparators):
                right = self.ev(r)
                if not self.compare(op, left, right, e):
                    return False
                left = right
            return True
        if isinstance(e, ast.IfExp):
            return self.ev(e.body) if self.truth(self.ev(e.test)) else self.ev(e.orelse)
        if isinstance(e, (ast.Tuple, ast.List)):
            return tuple(self.ev(x) for x in e.elts)
        if isinstance(e, ast.Dict):
            return {self.ev(k): self.ev(v) for k, v in zip(e.keys, e.values)}
        if isinstance(e, ast.Call):
            f = ast.unparse(e.func)
            if f == '__cast__':
                return self.ev(e.args[1])
            if f in ('ord',) and len(e.args) == 1:
                v = self.ev(e.args[0])
                return v
            if f in ('int',) and len(e.args) == 1:
                return self.ev(e.args[0])
            if self.on_call is not None:
                return self.on_call(self, e)
            raise Undecided(f'mini: call {ast.unparse(e)}')
        raise Undecided(f'mini: expression {ast.unparse(e)}')

    def truth(self, v):
        if isinstance(v, (Aff, Opaque)):
            raise Undecided(f'mini: truth value of symbolic {v}')
        return bool(v)

    def compare(self, op, l, r, node):
        if isinstance(l, (Aff, Opaque)) or isinstance(r, (Aff, Opaque)):
            if isinstance(l, Aff) and isinstance(r, Aff) and l.is_const() and r.is_const():
                l, r = l.const, r.const
            elif isinstance(l, Aff) and l.is_const() and isinstance(r, int):
                l = l.const
            elif isinstance(r, Aff) and r.is_const() and isinstance(l, int):
                r = r.const
            else:
                raise Undecided(f'mini: symbolic comparison {ast.unparse(node)}')
        t = type(op).__name__
        if t == 'Eq':
            return l == r
        if t == 'NotEq':
            return l != r
        if t == 'Lt':
            return l < r
        if t == 'LtE':
            return l <= r
        if t == 'Gt':
            return l > r
        if t == 'GtE':
            return l >= r
        if t in ('In', 'NotIn'):
            if isinstance(r, (bytes, str)):
                cont = [x if isinstance(x, int) else ord(x) for x in r]
            else:
                cont = list(r)
            res = l in cont
            return res if t == 'In' else not res
        raise Undecided(f'mini: comparison {ast.unparse(node)}')

    def binop(self, op, l, r, node=None):
        t = type(op).__name__
        if isinstance(l, Opaque) or isinstance(r, Opaque):
            raise Undecided(f'mini: arithmetic on opaque value in {ast.unparse(node) if node else t}')
        if isinstance(l, Aff) or isinstance(r, Aff):
            la = l if isinstance(l, Aff) else Aff(const=l)
            ra = r if isinstance(r, Aff) else Aff(const=r)
            if t == 'Add':
                return la.add(ra)
            if t == 'Sub':
                return la.sub(ra)
            if t == 'Mult':
                if la.is_const():
                    return ra.scale(la.const)
                if ra.is_const():
                    return la.scale(ra.const)
            if t == 'LShift' and ra.is_const() and ra.const >= 0:
                return la.scale(2 ** int(ra.const))
            if t == 'BitOr' and ra.is_const() and 0 <= ra.const < 4 and ra.const.denominator == 1 \
                    and all(v % 4 == 0 for v in la.terms.values()) and la.const % 4 == 0:
                return la.add(ra)   # low two bits of la are zero: or == add
            raise Undecided(f'mini: non-affine {t} in {ast.unparse(node) if node else ""}')
        if t == 'Add':
            return l + r
        if t == 'Sub':
            return l - r
        if t == 'Mult':
            return l * r
        if t == 'FloorDiv':
            return l // r
        if t == 'Mod':
            return l % r
        if t == 'BitAnd':
            return l & r
        if t == 'BitOr':
            return l | r
        if t == 'BitXor':
            return l ^ r
        if t == 'LShift':
            return l << r
        if t == 'RShift':
            return l >> r
        raise Undecided(f'mini: operator {t}')

    # ---------------------------------------------------------------- statements
    def run(self, stmts):
        for s in stmts:
            self.stmt(s)

    def assign(self, target, value, stmt):
        if isinstance(target, ast.Name):
            self.env[target.id] = value
            return
        if isinstance(target, ast.Subscript):
            idx = self.ev(target.slice)
            if self.on_store is not None:
                self.on_store(self, target, idx, value)
                return
        raise Undecided(f'mini: assignment target {ast.unparse(target)}')

    def stmt(self, s):
        if isinstance(s, ast.Assign):
            v = self.ev(s.value)
            for t in s.targets:
                self.assign(t, v, s)
        elif isinstance(s, ast.AnnAssign):
            if s.value is not None:
                self.assign(s.target, self.ev(s.value), s)
        elif isinstance(s, ast.AugAssign):
            if isinstance(s.target, ast.Name):
                cur = self.ev(s.target)
                v = self.binop(s.op, cur, self.ev(s.value), s)
                self.env[s.target.id] = v
                self.trace.append(('aug', s.target.id, type(s.op).__name__, s))
            else:
                raise Undecided(f'mini: augmented assignment {ast.unparse(s)}')
        elif isinstance(s, ast.If):
            if self.truth(self.ev(s.test)):
                self.run(s.body)
            else:
                self.run(s.orelse)
        elif isinstance(s, ast.Return):
            raise Return(None if s.value is None else self.ev(s.value))
        elif isinstance(s, ast.Pass):
            pass
        elif isinstance(s, ast.Expr) and isinstance(s.value, ast.Constant):
            pass
        elif isinstance(s, ast.Expr) and isinstance(s.value, ast.Call) and self.on_call is not None:
            self.on_call(self, s.value)
        else:
            raise Undecided(f'mini: statement {ast.unparse(s)[:80]}')
