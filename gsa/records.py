"""Plain-record rule shared by the properties that speak about values carried in the attrs result classes: a field stores the
value it is given.  A `converter=` / `on_setattr=` on the field, a `__attrs_post_init__` / `__setattr__` / `__getattribute__`
that rewrites it, or a property shadowing it changes the value between the producer the other rules analysed and the consumer,
so the other rules would be talking about a different value."""
import ast

from .astutil import u, stmts_in

NEUTRAL_KW = {'default', 'factory', 'repr', 'eq', 'order', 'hash', 'init', 'kw_only', 'metadata', 'type', 'validator', 'cmp', 'alias'}
FIELD_CTORS = {'attrib', 'attr.ib', 'attr.attrib', 'field', 'attrs.field', 'attr.field'}


def check_plain_records(rep, model, rule, class_qualnames, what):
    n = 0
    for cq in class_qualnames:
        ci = model.cls(cq)
        rep.functions.add(cq)
        fields = {}
        for s in ci.node.body:
            tgt = val = None
            if isinstance(s, ast.AnnAssign) and isinstance(s.target, ast.Name):
                tgt, val = s.target.id, s.value
            elif isinstance(s, ast.Assign) and len(s.targets) == 1 and isinstance(s.targets[0], ast.Name):
                tgt, val = s.targets[0].id, s.value
            if tgt is None or not (isinstance(val, ast.Call) and u(val.func) in FIELD_CTORS):
                continue
            fields[tgt] = (s, val)
        if not fields:
            rep.require(False, f'{cq}: no attrs fields found (record rule has no instance)')
        for name, (s, call) in fields.items():
            bad = [k.arg or '**' for k in call.keywords if (k.arg or '**') not in NEUTRAL_KW]
            n += 1
            rep.add(rule, (ci.module.relpath, s.lineno, cq), f'{ci.node.name}.{name} stores the value it is given ({what}): no converter / on_setattr on the field', not bad,
                    expected='attrib() with default / factory / repr / eq / validator only', found=u(call), stmt=f'{ci.node.name}.{name}')
        hooks = []
        for sub in ci.node.body:
            if isinstance(sub, (ast.FunctionDef, ast.AsyncFunctionDef)):
                if sub.name in ('__setattr__', '__getattribute__', '__getattr__'):
                    hooks.append(sub.name)
                elif sub.name == '__attrs_post_init__':
                    for st in stmts_in(sub.body):
                        tg = st.targets if isinstance(st, ast.Assign) else [st.target] if isinstance(st, (ast.AugAssign, ast.AnnAssign)) else []
                        for t in tg:
                            if isinstance(t, ast.Attribute) and u(t.value) == 'self' and t.attr in fields:
                                hooks.append(f'__attrs_post_init__ rewrites self.{t.attr}')
                        if isinstance(st, ast.Expr) and isinstance(st.value, ast.Call) and u(st.value.func) in ('object.__setattr__', 'setattr'):
                            hooks.append(f'__attrs_post_init__: {u(st.value)[:60]}')
                elif sub.name in fields and any(u(d) in ('property', 'cached_property', 'functools.cached_property') for d in sub.decorator_list):
                    hooks.append(f'property {sub.name} shadows the field')
        n += 1
        rep.add(rule, ci.site(), f'{ci.node.name}: no hook rewrites a stored field after construction ({what})', not hooks, expected='no __setattr__ / __getattribute__ / field-rewriting __attrs_post_init__', found=hooks or 'none',
                stmt=f'{ci.node.name} hooks')
    return n
