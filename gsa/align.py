"""Alignment provenance (E7c): which sequence is an expression an order-preserving, one-to-one image of?

`source(model, fi, expr, stmt)` follows a closed list of order-preserving constructs back to a root and returns
(root_text, steps).  Two sequences are index-aligned when their roots are equal.  Anything else (sorted, set, dict
views, slicing, filtering, as_completed ...) is itself a root, so alignment with anything upstream is lost.
"""
import ast

from .astutil import u, reaching_def, def_value, PARAM, AMBIGUOUS, callee_attr

# callees returning a tuple of index-aligned sequences (their own alignment rule is checked where they are defined)
ALIGNED_TUPLE_CALLEES = {'gambit.cli.common.get_sequence_files'}
# callees whose result is aligned with the given positional argument (summaries, each checked by the named rule)
ALIGNED_WITH_ARG = {
    'gambit.seq.SequenceFile.from_paths': 0,          # C08-A1 (body checked)
    'gambit.sigs.calc.calc_file_signatures': 1,       # C13
    'gambit.sigs.base.SignatureList': 0,              # C13-S6
    'gambit.sigs.base.AnnotatedSignatures': 0,
    'gambit.util.progress.iter_progress': 0,          # C08-A7
}


def source(m, fi, expr, stmt, depth=0):
    steps = []
    e = expr
    cur_stmt = stmt
    for _ in range(12):
        if isinstance(e, ast.Name):
            d = reaching_def(fi.node, e.id, cur_stmt)
            if d is PARAM:
                return e.id, steps
            if d in (None, AMBIGUOUS):
                return f'?{e.id}', steps
            if isinstance(d, ast.Assign) and len(d.targets) == 1 and isinstance(d.targets[0], (ast.Tuple, ast.List)) and isinstance(d.value, ast.Call):
                callee = m.resolve_call(fi, d.value)
                if callee in ALIGNED_TUPLE_CALLEES:
                    steps.append(f'component of {callee.rsplit(".", 1)[1]}(...)')
                    return f'{callee}({", ".join(u(a) for a in d.value.args)})@{d.lineno}', steps
                return f'?{u(d)}', steps
            if isinstance(d, ast.With):
                item = next((i for i in d.items if i.optional_vars is not None and u(i.optional_vars) == e.id), None)
                if item is None:
                    return f'?{e.id}', steps
                e, cur_stmt = item.context_expr, d
                continue
            if isinstance(d, (ast.For,)):
                return f'?loopvar {e.id}', steps
            v = def_value(d)
            if v is None:
                return f'?{u(d)}', steps
            steps.append(f'{e.id} := {u(v)[:50]}')
            e, cur_stmt = v, d
            continue
        if isinstance(e, ast.Call):
            f = u(e.func)
            if f in ('list', 'tuple') and len(e.args) == 1 and not e.keywords:
                e = e.args[0]
                continue
            if f == 'map' and len(e.args) == 2:
                steps.append(f'map({u(e.args[0])}, .)')
                e = e.args[1]
                continue
            callee = m.resolve_call(fi, e)
            if callee in ALIGNED_WITH_ARG and len(e.args) > ALIGNED_WITH_ARG[callee]:
                steps.append(f'{callee.rsplit(".", 1)[1]}(.)')
                e = e.args[ALIGNED_WITH_ARG[callee]]
                continue
            return u(e), steps
        if isinstance(e, ast.ListComp) and len(e.generators) == 1 and not e.generators[0].ifs:
            g = e.generators[0]
            tnames = {n.id for n in ast.walk(g.target) if isinstance(n, ast.Name)}
            enames = {n.id for n in ast.walk(e.elt) if isinstance(n, ast.Name)}
            if tnames & enames or not tnames:
                steps.append(f'[{u(e.elt)[:30]} for {u(g.target)} in .]')
                it = g.iter
                if isinstance(it, ast.Call) and u(it.func) in ('zip_strict',) and it.args:
                    # strict zip: aligned with each operand (all the same length or an error)
                    return 'zip_strict(' + ', '.join(source(m, fi, a, cur_stmt, depth + 1)[0] for a in it.args) + ')', steps
                e = it
                continue
            return u(e), steps
        if isinstance(e, ast.Attribute):
            base, st = source(m, fi, e.value, cur_stmt, depth + 1) if isinstance(e.value, ast.Name) and False else (u(e.value), [])
            return f'{base}.{e.attr}', steps
        return u(e), steps
    return u(e), steps
