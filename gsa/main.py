"""Driver: ./check Cxx [--tier quick|thorough] [--replay path] [--repo path] [--no-evidence] [--json]"""
import argparse
import importlib
import json
import os
import sys
import time
import traceback

from .model import Model
from .report import (Report, Undecided, load_known_findings, match_known, write_evidence, write_replay)

PROPS = ['C%02d' % i for i in range(1, 21)]


class Ctx:
    def __init__(self, model, report, tier):
        self.model = model
        self.rep = report
        self.tier = tier


def run_property(prop, repo, tier='quick'):
    """Analyse one property on one tree. Returns (report, undecided_reason|None)."""
    rep = Report(prop, tier)
    try:
        mod = importlib.import_module(f'gsa.props.{prop.lower()}')
    except ModuleNotFoundError:
        return rep, f'no checker module for {prop}'
    try:
        model = Model(repo)
        ctx = Ctx(model, rep, tier)
        rep.info['modules_parsed'] = len(model.modules)
        mod.check(ctx)
        if tier == 'thorough' and hasattr(mod, 'thorough'):
            mod.thorough(ctx)
    except Undecided as e:
        return rep, str(e)
    except RecursionError as e:  # pragma: no cover
        return rep, f'internal: {e}'
    except Exception as e:
        tb = traceback.extract_tb(e.__traceback__)[-1]
        return rep, f'internal error {type(e).__name__}: {e} at {os.path.basename(tb.filename)}:{tb.lineno}'
    return rep, None


def main(argv=None):
    ap = argparse.ArgumentParser(prog='check')
    ap.add_argument('prop')
    ap.add_argument('--tier', default=os.environ.get('VERIF_TIER', 'quick'), choices=['quick', 'thorough'])
    ap.add_argument('--replay')
    ap.add_argument('--repo', default=os.environ.get('GSA_REPO', '/repo'))
    ap.add_argument('--no-evidence', action='store_true')
    ap.add_argument('--quiet', action='store_true')
    args = ap.parse_args(argv)
    prop = args.prop.upper()
    seed = int(os.environ.get('VERIF_SEED', '0') or 0)
    if prop not in PROPS:
        print(f'ANALYSIS-ERROR property={prop} reason=unknown property')
        return 2

    t0 = time.time()
    rep, undecided = run_property(prop, args.repo, args.tier)
    findings = load_known_findings()

    if undecided is not None:
        # a violation of a rule the analyser understood stands even if the analysis could not finish afterwards
        definite = [o for o in rep.obs if not o.ok and match_known(o, prop, findings) is None]
        print(f'{prop} obligations so far: {len(rep.obs)}')
        print(f'ANALYSIS-ERROR property={prop} reason={undecided}')
        if definite and not args.replay:
            for o in definite:
                print(f'{o.file}:{o.line} {o.construct}  {o.rule} {o.desc}')
                print(f'    found: {o.found}; expected: {o.expected}')
            if not args.no_evidence:
                write_evidence(rep, 1, extra=dict(analysis_error=undecided), seed=seed)
            print(f'VIOLATION property={prop} replay={write_replay(rep, definite)}')
            return 1
        if not args.no_evidence:
            write_evidence(rep, 2, extra=dict(analysis_error=undecided), seed=seed)
        return 2

    # replay: restrict to the listed obligations
    if args.replay:
        with open(args.replay) as f:
            want = {(o['rule'], o['construct'], o.get('statement', '')) for o in json.load(f)['obligations']}
        wanted_rc = {(r, c) for (r, c, s) in want}
        rep.obs = [o for o in rep.obs if (o.rule, o.construct) in wanted_rc]

    viol = []
    for o in rep.obs:
        if o.ok:
            continue
        kf = match_known(o, prop, findings)
        if kf is not None:
            o.known = kf
        else:
            viol.append(o)

    extra = {}
    broken = None
    if args.tier == 'thorough' and not args.replay and not viol:
        from . import variants
        vres = variants.run_corpus(prop, args.repo, seed=seed)
        extra.update(vres['coverage'])
        if vres['broken']:
            broken = vres['broken']

    n_ok = sum(1 for o in rep.obs if o.ok)
    print(f'{prop} parsed {rep.info.get("modules_parsed", 0)} modules (.py, .pyx, .pxd); '
          f'{len(rep.functions)} anchors; {len(rep.obs)} obligations, {n_ok} discharged'
          + (f'; variants killed {extra.get("variants_killed")}/{extra.get("variants_breaking")}, '
             f'equivalents silent {extra.get("equivalents_silent")}/{extra.get("variants_equivalent")}'
             if 'variants_killed' in extra else ''))
    for o in rep.obs:
        if o.ok:
            continue
        if o.known is not None:
            print(f'KNOWN-FINDING: property={prop} {o.rule} {o.construct}: {o.known.get("what", o.desc)}')
            continue
        print(f'{o.file}:{o.line} {o.construct}  {o.rule} {o.desc}')
        print(f'    found: {o.found}; expected: {o.expected}')
        if o.stmt:
            print(f'    statement: {o.stmt}')

    code = 0
    if viol:
        code = 1
    elif broken:
        code = 2
    if not args.no_evidence:
        write_evidence(rep, code, extra=extra, seed=seed)
    if viol:
        path = write_replay(rep, viol) if not args.replay else args.replay
        print(f'VIOLATION property={prop} replay={path}')
        return 1
    if broken:
        for b in broken[:20]:
            print(f'CHECKER-BROKEN {b}')
        print(f'ANALYSIS-ERROR property={prop} reason=variant self-test failed ({len(broken)} variants)')
        return 2
    if not args.quiet:
        print(f'{prop} OK ({time.time() - t0:.2f}s)')
    return 0


if __name__ == '__main__':
    try:
        sys.exit(main())
    except SystemExit:
        raise
    except BaseException as e:  # never a traceback exit 1
        print(f'ANALYSIS-ERROR property=? reason=driver crashed: {type(e).__name__}: {e}')
        sys.exit(2)
