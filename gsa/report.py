"""E8: obligations, verdicts, evidence files, known findings, replay files.

Exit protocol (DESIGN.md R-3): 0 = all obligations discharged (known findings printed), 1 = VIOLATION,
2 = ANALYSIS-ERROR (cannot decide; never a VIOLATION line).
"""
import ast
import hashlib
import json
import os
import re
import time

VERIF = os.path.dirname(os.path.dirname(os.path.abspath(__file__)))


class Undecided(Exception):
    """The analysis cannot decide: anchor vanished, construct outside the recognised idioms, floor not met."""


def norm_stmt(node_or_text):
    """Normalised statement text used in finding keys (never line numbers)."""
    if node_or_text is None:
        return ''
    if isinstance(node_or_text, ast.AST):
        try:
            text = ast.unparse(node_or_text)
        except Exception:  # pragma: no cover
            text = ast.dump(node_or_text)
    else:
        text = str(node_or_text)
    text = text.split('\n')[0]
    return re.sub(r'\s+', ' ', text).strip()[:200]


class Ob:
    """One obligation: a rule instance evaluated on a construct."""

    __slots__ = ('rule', 'file', 'line', 'construct', 'desc', 'ok', 'expected', 'found', 'stmt', 'known')

    def __init__(self, rule, file, line, construct, desc, ok, expected='', found='', stmt=''):
        self.rule = rule
        self.file = file
        self.line = line
        self.construct = construct
        self.desc = desc
        self.ok = ok
        self.expected = expected
        self.found = found
        self.stmt = stmt
        self.known = None

    def key(self):
        return (self.rule, self.construct, self.stmt)

    def to_json(self):
        d = dict(rule=self.rule, site=f'{self.file}:{self.line}', construct=self.construct, what=self.desc,
                 status='discharged' if self.ok else 'violated')
        if self.found != '':
            d['found'] = str(self.found)
        if self.expected != '':
            d['expected'] = str(self.expected)
        if self.stmt:
            d['statement'] = self.stmt
        return d


class Report:
    def __init__(self, prop, tier='quick'):
        self.prop = prop
        self.tier = tier
        self.obs = []
        self.info = {}           # extra coverage keys
        self.functions = set()   # qualified names analysed
        self.call_sites = 0
        self.assumptions = []
        self.trusted = []
        self.rules = {}          # rule id -> description
        self.t0 = time.time()

    # ----- recording
    def rule(self, rule_id, text):
        self.rules[rule_id] = text

    def add(self, rule, site, desc, ok, expected='', found='', stmt=None, construct=None):
        """site: (file, line, construct) tuple or an object with .file/.line/.qualname (FuncInfo + node)."""
        file, line, cons = site
        ob = Ob(f'{self.prop}-{rule}', file, line, construct or cons, desc, bool(ok),
                expected=expected, found=found, stmt=norm_stmt(stmt))
        self.obs.append(ob)
        return bool(ok)

    def account_returns(self, rule, fi, accounted, what='result'):
        """Every `return` (and generator `yield`) of an anchor function must be one the rules account for: a result
        produced on a path no rule looks at (a shortcut / special case) is reported, naming the statement."""
        import ast as _ast
        from .astutil import stmts_in, guard_map, path_atoms, u
        acc = {id(x) for x in accounted}
        gm = None
        extra = []
        for s in stmts_in(fi.node.body):
            if isinstance(s, _ast.Return) and id(s) not in acc:
                extra.append(s)
        if extra:
            gm = guard_map(fi.node)
        for s in extra:
            self.add(rule, fi.site(s), f'{fi.name}: every {what} comes from a path the rules account for (no shortcut / special-case return)', False,
                     expected='only the analysed return statements', found=f'return {u(s.value) if s.value is not None else ""} under {sorted(path_atoms(gm[s]))}', stmt=s)
        if not extra:
            self.add(rule, fi.site(), f'{fi.name}: every {what} comes from a path the rules account for (no shortcut / special-case return)', True,
                     found=f'{len(acc)} return statements, all analysed', stmt=f'returns of {fi.name}')
        return not extra

    def account_exits(self, rule, fi, work, what, excused=()):
        """Must-pass-through: every `return` of a procedure whose job is to produce an output (write a file, print a tree) comes after
        that output was produced on its own path - a work statement precedes it whose guards are a subset of the return's guards.
        A `return` that leaves before (a guard clause for some special input) is reported, naming the statement."""
        import ast as _ast
        from .astutil import guard_map, path_atoms, u, walk_no_nested
        gm = guard_map(fi.node)

        def gs(st):
            return {(id(t), bool(p)) for t, p in gm.get(st, ())}
        early = [r for r in walk_no_nested(fi.node) if isinstance(r, _ast.Return)
                 and not any(w.lineno < r.lineno and gs(w) <= gs(r) for w in work)
                 and not (set(excused) & set(path_atoms(gm[r])))]          # `excused`: path atoms of a documented other mode of the command
        self.add(rule, fi.site(early[0] if early else None), f'{fi.name}: no exit leaves before {what}', not early, expected=f'every return after {what} on its own path',
                 found=[f'line {r.lineno}: return under {sorted(path_atoms(gm[r]))}' for r in early[:3]] or f'{len(work)} output site(s), no early return', stmt=f'exits of {fi.name}')
        return not early

    def require(self, cond, reason):
        if not cond:
            raise Undecided(reason)

    def floor(self, rule, what, found, floor):
        if found < floor:
            raise Undecided(f'rule {rule}: {what}: found {found}, floor {floor}')

    # ----- results
    @property
    def violations(self):
        return [o for o in self.obs if not o.ok]


def load_known_findings():
    path = os.path.join(VERIF, 'known_findings.json')
    if not os.path.exists(path):
        return []
    with open(path) as f:
        return json.load(f).get('findings', [])


def match_known(ob, prop, findings):
    for kf in findings:
        if kf.get('status') != 'open':
            continue
        if kf.get('property') != prop or kf.get('rule') != ob.rule:
            continue
        if kf.get('construct') != ob.construct:
            continue
        if kf.get('statement') and kf.get('statement') != ob.stmt:
            continue
        return kf
    return None


def write_evidence(rep, exit_code, extra=None, seed=0):
    obs = rep.obs
    nd = len({o.key() for o in obs})
    discharged = sum(1 for o in obs if o.ok)
    viol = [o for o in obs if not o.ok and o.known is None]
    samples = [o.to_json() for o in obs[:12]]
    # make sure violated obligations are visible in the samples
    for o in obs:
        if not o.ok and o.to_json() not in samples:
            samples.append(o.to_json())
    rule_text = ('Obligations are rule instances extracted from the current source of GSA_REPO by the rules listed in '
                 'coverage.rules; one obligation per matched construct (loop, call site, table row, guard). '
                 'distinct_nontrivial counts distinct (rule, construct, normalised statement) keys; every obligation '
                 'is attached to a real AST construct, so none is trivial. No sampling: every instance found is evaluated.')
    cov = dict(
        explanation=('Static rule check (no code of the repository is imported or executed). '
                     f'{len(obs)} obligations extracted from the current source, {discharged} discharged. '
                     'Rules: ' + '; '.join(f'{k}: {v}' for k, v in sorted(rep.rules.items()))),
        obligations=len(obs),
        discharged=discharged,
        evaluations=max(len(obs), 0),
        distinct_nontrivial=nd,
        rule=rule_text,
        rules=rep.rules,
        samples=samples,
        functions_analysed=sorted(rep.functions),
        call_sites=rep.call_sites,
        trusted_base=rep.trusted,
        exhaustive=True,
        exit_code=exit_code,
    )
    cov.update(rep.info)
    if extra:
        cov.update(extra)
    ev = dict(
        property_id=rep.prop,
        tier=rep.tier,
        seed=int(seed),
        level='other',
        coverage=cov,
        assumptions=rep.assumptions,
        wall_s=round(time.time() - rep.t0, 3),
        violations=len(viol),
    )
    d = os.path.join(VERIF, 'evidence')
    os.makedirs(d, exist_ok=True)
    path = os.path.join(d, f'{rep.prop}.json')
    tmp = path + f'.tmp{os.getpid()}'
    with open(tmp, 'w') as f:
        json.dump(ev, f, indent=1, sort_keys=True, default=str)
    os.replace(tmp, path)
    return path


def write_replay(rep, viol):
    d = os.path.join(VERIF, 'evidence', 'replay')
    os.makedirs(d, exist_ok=True)
    payload = dict(property=rep.prop,
                   obligations=[dict(rule=o.rule, construct=o.construct, statement=o.stmt, expected=str(o.expected),
                                     found=str(o.found), site=f'{o.file}:{o.line}', what=o.desc) for o in viol])
    dig = hashlib.sha1(json.dumps([[o.rule, o.construct, o.stmt] for o in viol], sort_keys=True).encode()).hexdigest()[:10]
    path = os.path.join(d, f'{rep.prop}-{dig}.json')
    with open(path, 'w') as f:
        json.dump(payload, f, indent=1)
    return path
