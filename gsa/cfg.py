"""E4/E7: statement-level CFG with condition-labelled edges, dominators, and a generic forward solver."""
import ast

from .report import Undecided


class Node:
    def __init__(self, nid, kind, stmt=None):
        self.id = nid
        self.kind = kind      # entry | exit | stmt | cond | for | return | raise | with | try | except
        self.stmt = stmt      # ast statement, or test expression for 'cond', or the For node for 'for'
        self.succ = []        # list of (node, edge_label) with label in {None, True, False, 'exc'}
        self.handler = None

    def __repr__(self):
        s = ast.unparse(self.stmt) if self.stmt is not None else ''
        return f'<{self.id}:{self.kind} {s[:60]!r}>'


class CFG:
    """Normal exits reach `exit`; raise statements reach `raise_exit` (or a matching handler inside try)."""

    def __init__(self, func):
        self.func = func
        self.nodes = []
        self.entry = self._new('entry')
        self.exit = self._new('exit')
        self.raise_exit = self._new('raise_exit')
        ends = self._block(func.body, [(self.entry, None)], loop=None)
        for (n, lab) in ends:
            n.succ.append((self.exit, lab))

    def _new(self, kind, stmt=None):
        n = Node(len(self.nodes), kind, stmt)
        self.nodes.append(n)
        return n

    def _link(self, preds, node):
        for (p, lab) in preds:
            p.succ.append((node, lab))

    def _block(self, stmts, preds, loop):
        for s in stmts:
            preds = self._stmt(s, preds, loop)
        return preds

    def _stmt(self, s, preds, loop):
        if isinstance(s, ast.If):
            c = self._new('cond', s.test)
            c.owner = s
            self._link(preds, c)
            t = self._block(s.body, [(c, True)], loop)
            f = self._block(s.orelse, [(c, False)], loop) if s.orelse else [(c, False)]
            return t + f
        if isinstance(s, ast.While):
            c = self._new('cond', s.test)
            c.owner = s
            self._link(preds, c)
            lp = dict(head=c, breaks=[])
            body_end = self._block(s.body, [(c, True)], lp)
            self._link(body_end, c)
            out = [(c, False)]
            if isinstance(s.test, ast.Constant) and s.test.value:
                out = []
            if s.orelse:
                out = self._block(s.orelse, out, loop)
            return out + lp['breaks']
        if isinstance(s, (ast.For, ast.AsyncFor)):
            c = self._new('for', s)
            c.owner = s
            self._link(preds, c)
            lp = dict(head=c, breaks=[])
            body_end = self._block(s.body, [(c, True)], lp)
            self._link(body_end, c)
            out = [(c, False)]
            if s.orelse:
                out = self._block(s.orelse, out, loop)
            return out + lp['breaks']
        if isinstance(s, ast.Return):
            n = self._new('return', s)
            self._link(preds, n)
            n.succ.append((self.exit, None))
            return []
        if isinstance(s, ast.Raise):
            n = self._new('raise', s)
            self._link(preds, n)
            n.succ.append((self.raise_exit, None))
            return []
        if isinstance(s, ast.Break):
            if loop is None:
                raise Undecided('break outside loop')
            loop['breaks'].extend(preds)
            return []
        if isinstance(s, ast.Continue):
            if loop is None:
                raise Undecided('continue outside loop')
            self._link(preds, loop['head'])
            return []
        if isinstance(s, (ast.With, ast.AsyncWith)):
            n = self._new('with', s)
            self._link(preds, n)
            return self._block(s.body, [(n, None)], loop)
        if isinstance(s, ast.Try):
            n = self._new('try', None)
            self._link(preds, n)
            before = len(self.nodes)
            body_end = self._block(s.body, [(n, None)], loop)
            body_nodes = self.nodes[before:]
            outs = list(body_end)
            if s.orelse:
                outs = self._block(s.orelse, body_end, loop)
            for h in s.handlers:
                hn = self._new('except', None)
                hn.handler = h
                n.succ.append((hn, 'exc'))
                for b in body_nodes:
                    b.succ.append((hn, 'exc'))
                outs += self._block(h.body, [(hn, None)], loop)
            if s.finalbody:
                outs = self._block(s.finalbody, outs, loop)
            return outs
        n = self._new('stmt', s)
        self._link(preds, n)
        return [(n, None)]

    # ------------------------------------------------------------------ graph queries
    def preds(self):
        p = {n.id: [] for n in self.nodes}
        for n in self.nodes:
            for (m, lab) in n.succ:
                p[m.id].append((n, lab))
        return p

    def reachable(self, start=None, skip_edges=(), skip_nodes=()):
        start = start or self.entry
        seen = {start.id}
        work = [start]
        while work:
            n = work.pop()
            for (m, lab) in n.succ:
                if (n.id, m.id, lab) in skip_edges or m.id in skip_nodes:
                    continue
                if m.id not in seen:
                    seen.add(m.id)
                    work.append(m)
        return seen

    def dominates_exit(self, node_ids, exc_edges=True):
        """True when every path entry -> normal exit passes through one of node_ids."""
        skip = set()
        if not exc_edges:
            for n in self.nodes:
                for (m, lab) in n.succ:
                    if lab == 'exc':
                        skip.add((n.id, m.id, lab))
        seen = self.reachable(skip_nodes=set(node_ids), skip_edges=skip)
        return self.exit.id not in seen

    def node_of(self, stmt):
        for n in self.nodes:
            if n.stmt is stmt:
                return n
        return None

    def node_containing(self, expr):
        for n in self.nodes:
            if n.stmt is None:
                continue
            root = n.stmt
            if n.kind == 'for':
                # only the header (iter / target) belongs to the for node
                for part in (root.iter, root.target):
                    for x in ast.walk(part):
                        if x is expr:
                            return n
                continue
            if n.kind == 'with':
                for it in root.items:
                    for x in ast.walk(it):
                        if x is expr:
                            return n
                continue
            for x in ast.walk(root):
                if x is expr:
                    return n
        return None

    def all_paths_through(self, target_ids, frm, avoid_exc=True):
        """True when every path from node `frm` to the normal exit passes through one of target_ids."""
        skip = set()
        if avoid_exc:
            for n in self.nodes:
                for (m, lab) in n.succ:
                    if lab == 'exc':
                        skip.add((n.id, m.id, lab))
        seen = self.reachable(start=frm, skip_nodes=set(target_ids), skip_edges=skip)
        return self.exit.id not in seen


def solve(cfg, init, transfer, refine, join, maxiter=20000):
    """Generic forward worklist solver.  transfer(node, state)->state; refine(node, label, state)->state|None
    (None = infeasible edge); join(a, b)->state.  States must support ==."""
    IN = {cfg.entry.id: init}
    work = [cfg.entry]
    it = 0
    while work:
        it += 1
        if it > maxiter:
            raise Undecided('abstract interpretation did not converge')
        n = work.pop()
        st = IN[n.id]
        out = transfer(n, st)
        for (m, lab) in n.succ:
            s2 = refine(n, lab, out) if n.kind in ('cond', 'for') else out
            if s2 is None:
                continue
            old = IN.get(m.id)
            new = s2 if old is None else join(old, s2)
            if new != old:
                IN[m.id] = new
                work.append(m)
    return IN
