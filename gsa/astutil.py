"""AST helpers: normal forms of comparisons, structured path conditions, call/argument resolution, def-use."""
import ast

U = ast.unparse


def u(node):
    return None if node is None else ast.unparse(node)


def is_none(e):
    return isinstance(e, ast.Constant) and e.value is None


def is_const(e, value):
    return isinstance(e, ast.Constant) and type(e.value) is type(value) and e.value == value


def dotted(node):
    """Textual dotted name of a Name/Attribute chain, else None."""
    parts = []
    while isinstance(node, ast.Attribute):
        parts.append(node.attr)
        node = node.value
    if isinstance(node, ast.Name):
        parts.append(node.id)
        return '.'.join(reversed(parts))
    return None


def callee(call):
    return dotted(call.func) if isinstance(call, ast.Call) else None


def callee_attr(call):
    """Last component of the callee (method / function name)."""
    f = call.func
    if isinstance(f, ast.Attribute):
        return f.attr
    if isinstance(f, ast.Name):
        return f.id
    return None


def get_arg(call, pos, name=None):
    """Positional-or-keyword argument of a call; None when absent. Star-args make it unknowable -> returns Ellipsis."""
    for a in call.args:
        if isinstance(a, ast.Starred):
            return Ellipsis
    if pos is not None and pos < len(call.args):
        return call.args[pos]
    for kw in call.keywords:
        if kw.arg == name:
            return kw.value
    return None


def get_kw(call, name):
    for kw in call.keywords:
        if kw.arg == name:
            return kw.value
    return None


def has_starstar(call):
    return any(kw.arg is None for kw in call.keywords)


# ---------------------------------------------------------------------- walking

def walk_no_nested(node):
    """ast.walk that does not descend into nested function / class / lambda definitions (the root is entered)."""
    stack = [node]
    first = True
    while stack:
        n = stack.pop()
        if not first and isinstance(n, (ast.FunctionDef, ast.AsyncFunctionDef, ast.ClassDef, ast.Lambda)):
            continue
        first = False
        yield n
        stack.extend(reversed(list(ast.iter_child_nodes(n))))


def walk_ordered(node):
    """Pre-order, source-order walk (including nested definitions)."""
    yield node
    for c in ast.iter_child_nodes(node):
        yield from walk_ordered(c)


def stmts_in(body):
    """All statements in a body, recursively, in source order (not entering nested defs)."""
    for s in body:
        yield s
        for field in ('body', 'orelse', 'finalbody'):
            sub = getattr(s, field, None)
            if sub and not isinstance(s, (ast.FunctionDef, ast.AsyncFunctionDef, ast.ClassDef)):
                yield from stmts_in(sub)
        if isinstance(s, ast.Try):
            for h in s.handlers:
                yield from stmts_in(h.body)


def calls_in(node, name=None, attr=None):
    out = []
    for n in walk_ordered(node):
        if isinstance(n, ast.Call):
            if name is not None and callee(n) != name:
                continue
            if attr is not None and callee_attr(n) != attr:
                continue
            out.append(n)
    return out


def names_in(node):
    return {n.id for n in ast.walk(node) if isinstance(n, ast.Name)}


def assigned_targets(stmt):
    """Target nodes assigned by a statement (Assign / AugAssign / AnnAssign / For / With-as)."""
    out = []
    if isinstance(stmt, ast.Assign):
        out = list(stmt.targets)
    elif isinstance(stmt, (ast.AugAssign, ast.AnnAssign)):
        out = [stmt.target]
    elif isinstance(stmt, ast.For):
        out = [stmt.target]
    elif isinstance(stmt, ast.With):
        out = [i.optional_vars for i in stmt.items if i.optional_vars is not None]
    flat = []
    for t in out:
        if isinstance(t, (ast.Tuple, ast.List)):
            flat.extend(t.elts)
        else:
            flat.append(t)
    return flat


def assigns_to(func, name):
    """All statements in func (incl. nested blocks, excl. nested defs) that bind Name `name`, in source order."""
    out = []
    for s in stmts_in(func.body):
        for t in assigned_targets(s):
            for n in ast.walk(t):
                if isinstance(n, ast.Name) and n.id == name and isinstance(n.ctx, ast.Store):
                    out.append(s)
                    break
    return out


def single_def(func, name):
    """The unique `name = expr` assignment's value in func, or None if none / several / not a plain assignment."""
    ds = assigns_to(func, name)
    if len(ds) != 1:
        return None
    s = ds[0]
    if isinstance(s, ast.Assign) and len(s.targets) == 1 and isinstance(s.targets[0], ast.Name):
        return s.value
    if isinstance(s, ast.AnnAssign) and s.value is not None:
        return s.value
    return None


def find_parent_map(root):
    pm = {}
    for n in ast.walk(root):
        for c in ast.iter_child_nodes(n):
            pm[c] = n
    return pm


# ---------------------------------------------------------------------- exits / path conditions

def always_exits(stmts):
    """True when control never falls out of the end of this block (ends in raise/return/break/continue on all paths)."""
    if not stmts:
        return False
    last = stmts[-1]
    if isinstance(last, (ast.Raise, ast.Return, ast.Break, ast.Continue)):
        return True
    if isinstance(last, ast.If):
        return bool(last.orelse) and always_exits(last.body) and always_exits(last.orelse)
    if isinstance(last, ast.With):
        return always_exits(last.body)
    if isinstance(last, ast.Try):
        if last.finalbody and always_exits(last.finalbody):
            return True
        body_ok = always_exits(last.body + last.orelse) if last.orelse else always_exits(last.body)
        return body_ok and all(always_exits(h.body) for h in last.handlers)
    if isinstance(last, ast.Assert) and is_const(last.test, False) or \
            (isinstance(last, ast.Assert) and isinstance(last.test, ast.Constant) and not last.test.value):
        return True
    return False


def guard_map(func):
    """stmt -> tuple of (test, polarity): structured path condition incl. early exits (`if c: raise` => not c after)
    and asserts.  Stale when a tested variable is reassigned in between: callers check that where it matters."""
    out = {}

    def block(stmts, ctx):
        ctx = list(ctx)
        for s in stmts:
            out[s] = tuple(ctx)
            if isinstance(s, ast.If):
                block(s.body, ctx + [(s.test, True)])
                block(s.orelse, ctx + [(s.test, False)])
                be = always_exits(s.body)
                oe = always_exits(s.orelse) if s.orelse else False
                if be and not oe:
                    ctx.append((s.test, False))
                elif oe and not be:
                    ctx.append((s.test, True))
            elif isinstance(s, ast.While):
                block(s.body, ctx + [(s.test, True)])
                block(s.orelse, ctx)
            elif isinstance(s, (ast.For, ast.AsyncFor)):
                block(s.body, ctx)
                block(s.orelse, ctx)
            elif isinstance(s, (ast.With, ast.AsyncWith)):
                block(s.body, ctx)
            elif isinstance(s, ast.Try):
                block(s.body, ctx)
                for h in s.handlers:
                    block(h.body, ctx)
                block(s.orelse, ctx)
                block(s.finalbody, ctx)
            elif isinstance(s, ast.Assert):
                ctx.append((s.test, True))
    block(func.body, [])
    return out


def enclosing_stmt(func, node, pm=None):
    """The statement of func that contains expression node."""
    pm = pm or find_parent_map(func)
    n = node
    while n is not None and not isinstance(n, ast.stmt):
        n = pm.get(n)
    return n


# ---------------------------------------------------------------------- comparison normal form

_FLIP = {'lt': 'le', 'le': 'lt'}


def _atom(op, l, r, key):
    L, R = key(l), key(r)
    if op in ('eq', 'ne', 'is', 'isnot'):
        a, b = sorted([L, R])
        return (op, a, b)
    return (op, L, R)


def atoms(test, pol=True, key=u):
    """Set of atomic facts implied by `test` having truth value `pol`, as normalised tuples.
    ('lt'|'le', small, big) | ('eq'|'ne'|'is'|'isnot', a, b) | ('in'|'notin', x, container) | ('true'|'false', e)
    Returns None when the formula is not a pure conjunction of atoms (e.g. a disjunction under this polarity)."""
    if isinstance(test, ast.UnaryOp) and isinstance(test.op, ast.Not):
        return atoms(test.operand, not pol, key)
    if isinstance(test, ast.BoolOp):
        conj = isinstance(test.op, ast.And)
        if conj == pol:
            out = set()
            for v in test.values:
                a = atoms(v, pol, key)
                if a is None:
                    return None
                out |= a
            return out
        if len(test.values) == 1:
            return atoms(test.values[0], pol, key)
        return None
    if isinstance(test, ast.Compare):
        out = set()
        left = test.left
        if len(test.ops) > 1 and not pol:
            return None
        for op, right in zip(test.ops, test.comparators):
            t = type(op).__name__
            if t == 'Lt':
                a = ('lt', left, right) if pol else ('le', right, left)
            elif t == 'LtE':
                a = ('le', left, right) if pol else ('lt', right, left)
            elif t == 'Gt':
                a = ('lt', right, left) if pol else ('le', left, right)
            elif t == 'GtE':
                a = ('le', right, left) if pol else ('lt', left, right)
            elif t == 'Eq':
                a = ('eq' if pol else 'ne', left, right)
            elif t == 'NotEq':
                a = ('ne' if pol else 'eq', left, right)
            elif t == 'Is':
                a = ('is' if pol else 'isnot', left, right)
            elif t == 'IsNot':
                a = ('isnot' if pol else 'is', left, right)
            elif t == 'In':
                a = ('in' if pol else 'notin', left, right)
            elif t == 'NotIn':
                a = ('notin' if pol else 'in', left, right)
            else:
                return None
            out.add(_atom(a[0], a[1], a[2], key))
            left = right
        return out
    return {('true' if pol else 'false', key(test))}


def path_atoms(guards, key=u):
    """Union of atoms over a guard list [(test, pol)]; non-conjunctive guards are skipped (sound: fewer facts)."""
    out = set()
    for t, p in guards:
        a = atoms(t, p, key)
        if a:
            out |= a
    return out


def raises_in(stmts):
    return [s for s in stmts_in(stmts) if isinstance(s, ast.Raise)]


def raised_name(r):
    """Class name (dotted text) of `raise X(...)` / `raise X` / `raise name` -> text."""
    e = r.exc
    if e is None:
        return None
    if isinstance(e, ast.Call):
        return dotted(e.func)
    return dotted(e)


# ---------------------------------------------------------------------- structured reaching definitions

def _child_blocks(s):
    out = []
    for field in ('body', 'orelse', 'finalbody'):
        b = getattr(s, field, None)
        if isinstance(b, list) and b and isinstance(b[0], ast.stmt):
            out.append(b)
    if isinstance(s, ast.Try):
        for h in s.handlers:
            out.append(h.body)
    return out


def block_path(func, stmt):
    """[(block, index, owner_stmt)] from outermost to innermost block containing stmt; None if absent."""
    def rec(block, owner):
        for i, s in enumerate(block):
            if s is stmt:
                return [(block, i, owner)]
            if isinstance(s, (ast.FunctionDef, ast.AsyncFunctionDef, ast.ClassDef)):
                continue
            for b in _child_blocks(s):
                r = rec(b, s)
                if r is not None:
                    return [(block, i, owner)] + r
        return None
    return rec(func.body, func)


def binds(stmt, name):
    """Does this statement (not descending into nested blocks) bind Name `name`?"""
    for t in assigned_targets(stmt):
        for n in ast.walk(t):
            if isinstance(n, ast.Name) and n.id == name:
                return True
    return False


def binds_deep(stmt, name):
    if binds(stmt, name):
        return True
    for b in _child_blocks(stmt):
        for s in stmts_in(b):
            if binds(s, name):
                return True
    return False


AMBIGUOUS = 'ambiguous'
PARAM = 'param'


def reaching_def(func, name, stmt):
    """The unique structured reaching definition of `name` at `stmt`:
    a statement node, PARAM, AMBIGUOUS (assigned inside a preceding compound statement / loop body later), or None."""
    path = block_path(func, stmt)
    if path is None:
        return None
    for block, idx, owner in reversed(path):
        for s in reversed(block[:idx]):
            if binds(s, name):
                return s
            if binds_deep(s, name):
                return AMBIGUOUS
        # enclosing loop: a later assignment in the loop body reaches via the back edge
        if isinstance(owner, (ast.For, ast.While, ast.AsyncFor)):
            if isinstance(owner, (ast.For, ast.AsyncFor)) and binds(owner, name):
                return owner
            for s in block[idx:]:
                if binds_deep(s, name) and s is not stmt:
                    return AMBIGUOUS
            if binds(stmt, name) and isinstance(stmt, ast.AugAssign):
                return AMBIGUOUS
        if isinstance(owner, (ast.With, ast.AsyncWith)) and binds(owner, name):
            return owner
    a = func.args
    if name in [x.arg for x in a.posonlyargs + a.args + a.kwonlyargs] or (a.vararg and a.vararg.arg == name) \
            or (a.kwarg and a.kwarg.arg == name):
        return PARAM
    return None


def def_value(d):
    """Value expression of a simple definition statement, else None."""
    if isinstance(d, ast.Assign) and len(d.targets) == 1 and isinstance(d.targets[0], ast.Name):
        return d.value
    if isinstance(d, ast.AnnAssign) and isinstance(d.target, ast.Name):
        return d.value
    return None


def stmt_of(func, expr):
    """Innermost statement of func containing expr (identity)."""
    best = None
    for s in stmts_in(func.body):
        for x in ast.walk(s) if not isinstance(s, (ast.If, ast.For, ast.While, ast.With, ast.Try)) else _header_nodes(s):
            if x is expr:
                best = s
    return best


def _header_nodes(s):
    """Expression nodes belonging to the header of a compound statement (not its body)."""
    parts = []
    if isinstance(s, (ast.If, ast.While)):
        parts = [s.test]
    elif isinstance(s, (ast.For, ast.AsyncFor)):
        parts = [s.target, s.iter]
    elif isinstance(s, (ast.With, ast.AsyncWith)):
        parts = [i.context_expr for i in s.items] + [i.optional_vars for i in s.items if i.optional_vars is not None]
    for p in parts:
        yield from ast.walk(p)
