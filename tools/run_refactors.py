#!/usr/bin/env python3
"""Run every check against behaviour-preserving refactoring patches (written by independent sub-agents).
Any VIOLATION is a false alarm of the checker; ANALYSIS-ERROR counts idioms that are too narrow.

usage: tools/run_refactors.py [dir-or-patch ...]      default: /verif/refactors/*/*.diff
"""
import glob
import os
import sys

HERE = os.path.dirname(os.path.dirname(os.path.abspath(__file__)))
sys.path.insert(0, HERE)
sys.path.insert(0, os.path.join(HERE, 'tools'))
from run_seeded import run_patch          # noqa: E402
from gsa.main import PROPS                # noqa: E402


def _one(a):
    return run_patch(a[0], a[1])


def main():
    args = sys.argv[1:]
    patches = []
    if not args:
        patches = sorted(glob.glob(os.path.join(HERE, 'refactors', '*', '*.diff')))
    for a in args:
        if os.path.isdir(a):
            patches += sorted(glob.glob(os.path.join(a, '*.diff')))
        else:
            patches.append(a)
    props = [p for p in PROPS if p != 'C19']
    na = nu = 0
    jobs = int(os.environ.get('GSA_JOBS', '14'))
    from concurrent.futures import ProcessPoolExecutor
    with ProcessPoolExecutor(max_workers=jobs) as ex:
        results = list(ex.map(_one, [(pt, props) for pt in patches]))
    for patch, (res, err) in zip(patches, results):
        name = os.path.join(os.path.basename(os.path.dirname(patch)), os.path.basename(patch))
        if err:
            print(f'{name}: ERROR {err}')
            continue
        alarms = {p: v for p, v in res.items() if v[0] == 'VIOLATION'}
        und = {p: v for p, v in res.items() if v[0] == 'ANALYSIS-ERROR'}
        na += len(alarms)
        nu += len(und)
        print(f'{name}: ' + ('silent' if not alarms and not und else f'FALSE ALARMS {sorted(alarms)} undecided {sorted(und)}'))
        for p, (kind, rules, lines) in sorted({**alarms, **und}.items()):
            print(f'    {p} {kind} {rules}')
            for l in lines[:3]:
                print(f'        {l}')
    print(f'patches: {len(patches)}; false alarms: {na}; analysis errors: {nu}')
    return 1 if na else 0


if __name__ == '__main__':
    raise SystemExit(main())
