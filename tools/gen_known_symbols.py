#!/usr/bin/env python3
"""Freeze the reference symbol table used by gsa/inline.py: every def (nested ones included) of the .py modules of the
reference tree.  Functions that are not in the table are treated as extracted helpers and expanded at their call sites.
Run once on the reference tree:  tools/gen_known_symbols.py [/repo]"""
import ast
import json
import os
import sys

HERE = os.path.dirname(os.path.dirname(os.path.abspath(__file__)))
sys.path.insert(0, HERE)
from gsa.inline import enumerate_defs   # noqa: E402

repo = sys.argv[1] if len(sys.argv) > 1 else '/repo'
src = os.path.join(repo, 'src')
syms = []
for d, dn, fn in os.walk(os.path.join(src, 'gambit')):
    dn[:] = sorted(x for x in dn if x != '__pycache__')
    for f in sorted(fn):
        if not f.endswith('.py'):
            continue
        p = os.path.join(d, f)
        parts = os.path.splitext(os.path.relpath(p, src))[0].split(os.sep)
        if parts[-1] == '__init__':
            parts = parts[:-1]
        tree = ast.parse(open(p, encoding='utf-8').read())
        syms += [q for q, *_ in enumerate_defs(tree, '.'.join(parts))]
out = os.path.join(HERE, 'gsa', 'known_symbols.json')
json.dump(dict(note='defs of the reference tree (never inlined); anything else is an extracted helper', symbols=sorted(set(syms))), open(out, 'w'), indent=0)
print(len(set(syms)), 'symbols ->', out)
