#!/usr/bin/env python3
"""Development aid: apply a patch (or '-' for the unchanged tree) to a scratch copy of /repo's sources and print, for the
given properties, the verdict and every violated obligation in full (rule, construct, expected, found, statement).

usage: tools/probe_patch.py <patch.diff | -> Cxx [Cyy ...] [--show qualified.function.name ...]
  --show prints the source of a function AS THE RULES SEE IT (after helper expansion N8 and canonicalisation N1-N7).
"""
import ast
import os
import shutil
import subprocess
import sys
import tempfile

HERE = os.path.dirname(os.path.dirname(os.path.abspath(__file__)))
sys.path.insert(0, HERE)
from gsa.main import run_property      # noqa: E402
from gsa.variants import copy_sources  # noqa: E402
from gsa.model import Model            # noqa: E402


def main():
    args = sys.argv[1:]
    show = []
    if '--show' in args:
        k = args.index('--show')
        show = args[k + 1:]
        args = args[:k]
    patch, props = args[0], [a.upper() for a in args[1:]]
    tmp = tempfile.mkdtemp(prefix='gsa_probe_')
    try:
        copy_sources(os.environ.get('GSA_REPO', '/repo'), tmp)
        if patch != '-':
            r = subprocess.run(['git', 'apply', '--include', 'src/*', '--include', 'setup.cfg', '--include', 'docs/*', os.path.abspath(patch)], cwd=tmp, capture_output=True, text=True)
            if r.returncode:
                print('patch does not apply:', r.stderr)
                return 2
        if show:
            m = Model(tmp)
            print('expanded helpers:', m.inlined, '| notes:', m.parse_errors)
            for q in show:
                fi = m.functions.get(q)
                print(f'--- {q}' + ('' if fi else '  (not found)'))
                if fi:
                    node = fi.node
                    body = node.body[1:] if node.body and isinstance(node.body[0], ast.Expr) and isinstance(getattr(node.body[0], 'value', None), ast.Constant) else node.body
                    print(f'def {node.name}({ast.unparse(node.args)}):')
                    for s in body:
                        print('    ' + ast.unparse(s).replace('\n', '\n    '))
        for p in props:
            rep, und = run_property(p, tmp, 'quick')
            viol = [o for o in rep.obs if not o.ok]
            verdict = 'VIOLATION' if viol else ('ANALYSIS-ERROR' if und is not None else 'OK')
            print(f'== {p}: {verdict}  ({len(rep.obs)} obligations)' + (f'  undecided: {und}' if und is not None else ''))
            for o in viol:
                print(f'   {o.rule}  {o.file}:{o.line}  {o.construct}')
                print(f'      what:     {o.desc}')
                print(f'      expected: {str(o.expected)[:400]}')
                print(f'      found:    {str(o.found)[:600]}')
                print(f'      stmt:     {o.stmt[:200]}')
    finally:
        shutil.rmtree(tmp, ignore_errors=True)


if __name__ == '__main__':
    raise SystemExit(main())
