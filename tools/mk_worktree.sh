#!/bin/sh
# usage: mk_worktree.sh <dir>   - scratch git worktree of /repo HEAD with the prebuilt extension modules copied in
set -e
D="$1"
rm -rf "$D"
git -C /repo worktree prune
git -C /repo worktree add --detach -f "$D" HEAD >/dev/null 2>&1
cp /repo/src/gambit/_cython/*.so "$D/src/gambit/_cython/"
echo "$D"
