#!/usr/bin/env python3
"""Regenerate /verif/MANIFEST.json from the table below (run after adding / removing a check)."""
import json
import os

HERE = os.path.dirname(os.path.dirname(os.path.abspath(__file__)))

# id -> (technique, what the check decides, trusted / assumed)
CLAIMED = {
    'C05': ('closed-list store classification over resolved values (per-path reaching definitions) + effect analysis of the prange body + affine / per-axis view normal forms + quasi-polynomial comparison of condensed offsets + call-site operand agreement (custom Cython front end) + exit rule (guards on the way to each work site evaluated for n = 0..5: no early return leaves cells of a non-empty output unwritten) + C20 selection rules re-evaluated',
            'Decides that every output cell is the unmodified value of the one kernel, a copy of a cell or zero (no arithmetic, buffers float32, returned unchanged); that the prange body writes only out[<induction variable>] with function-local scalars and a pure nogil callee '
            '(race-free for every schedule and thread count); fast/slow path pairing; that one slice selects reference chunk and output columns; that chunk_slices tiles [0,n); pairwise column slice, mirror, condensed offsets.',
            'Cython prange privatisation; NumPy view write-through; kernel correctness is C02.'),
    'C06': ('path-enumerated value flow (sym_paths) for compression dispatch, sniffing and parse(); content-only rule for the sniffer; per-record isolation; re-evaluated C01/C07 strand and case premises; sibling agreement over every CLI SequenceFile site',
            "Decides the gambit-side clauses: one generator element per record with no concatenation anywhere on the way to the search and one shared accumulator (union, no k-mer across contigs); mirrored strand windows and rc-encoder = encoder o complement; case folding; "
            "every CLI site uses 'auto' compression, gzip magic, rewind, universal-newline text wrapper; parse() stream ownership.",
            "Biopython's FASTA parser (wrapping, CRLF inside records, final newline), GzipFile, TextIOWrapper."),
    'C08': ('alignment-provenance by element derivation (enumerate / zip in lock step / comprehensions) + per-path label chain + csv row-stream derivation + effect analysis over the per-row call-graph closure + taint rule for `cores` + option types keep the path as typed + C06/C13/C01 rules re-evaluated',
            'Decides that ids, files, signatures, inputs, matrix rows and result items stay index-aligned from the click parameters to results.items through order-preserving constructs only (strict zip, enumerate, one-to-one comprehensions), '
            'label derivation (.gz before FASTA suffix), length check, the signature-file channel, that the per-row computation writes nothing outside its own fresh locals, progress transparency, that cores reaches only thread/worker sinks, and exporter iteration order.',
            'C13 (file order for every schedule), C05 (cells independent of chunking/threads); equality of channels is C01/C06/C12.'),
    'C11': ('schema resolution of the CSV column paths against the model tables + header/path/doc agreement + row-stream derivation for the csv writer + dict images of the JSON/archive converters + registry agreement (writer vs reader) + plain-record rule; getattr_nested by bounded evaluation (chains up to 3)',
            'Decides agreement clauses: every dotted CSV path resolves against the attrs/SQLAlchemy model and reports the attribute its header names; header set equals the documented set; rows only through csv.writer in COLUMNS order with absent values empty; '
            'JSON images; archive writer registrations == reader hooks and key fields written == read; float32 written by exact widening.',
            'cattrs structuring per field type; csv parse-back; json float repr round-trip.'),
    'C12': ('table agreement (attributes/datasets written vs read, metadata fields, unrolled loops over constant name tuples) + complete dtype-kind table for the id dispatch + index-map reduction of the fill loop + guard dominance for the refusal path + C20 sub-collection rules re-evaluated on the reader class (inherited indexing protocol)',
            'Decides that attribute names and datasets written equal those read and cover every SignaturesMeta field with None<->Empty symmetry, the list-path bounds (0, cumsum) and fill slice equal the reader slice, dtype preservation and id kinds, '
            'that the magic and marker guards raising SignaturesFileError dominate opening/construction, raising read forms, kmerspec round trip, create()/dump shape.',
            'h5py stores dtypes/strings/compression losslessly.'),
    'C16': ('alignment provenance per side by definition source + call-site orientation agreement + writer rules + option types keep the path as typed + C05 store rules, C14 parameter rules and the C01 signature premises K1-K7 re-evaluated; options taken as effective arguments (written at the call, else the default of the resolved signature)',
            'Decides that each id list is assigned in the same branch as and derived from its source, square mode reuses the query ids, row labels go with the first matrix operand and column labels with the second, computed signatures descend from the same get_sequence_files call as their labels with the reconciled kspec, '
            'and the CSV writer (header, strict zip of ids and rows, fixed 0.4f format, csv.writer).',
            'format() rounding; C05/C13/C14/C15 for cells, order, parameters, symmetry.'),
    'C17': ('symbolic execution of one row of linkage_to_bio_tree (affine index / height differences, both children) + call-chain operand agreement by value flow + option types keep the path as typed + C05 pairwise rules and the C01 signature premises K1-K7 re-evaluated; options taken as effective arguments',
            "Decides average linkage on the condensed form of the given matrix with no other option; for both children branch length = parent height - child height with child height 0 for leaves else link[child - nleaves, 2]; one clade per row holding its two children; leaves per label in order with the count asserted; root = last clade; "
            'labels and signatures from one source; pairwise (non-flat) matrix unchanged through hclust to Newick.',
            'SciPy average linkage = UPGMA with monotone heights and node numbering n + row; Biopython Newick writer.'),
    'C18': ('effect / taint analysis over the package: session class rules (complete cls x readonly table and two-call histories of file_sessionmaker over its module state), open-mode rules, classified write sinks vs database-path taint, mutator confinement by call graph, ORM write sweep (positive controls embedded)',
            'Decides that the read-only session cannot flush or commit and is used at every session construction site, that the signature file is opened without a mode and no caller forwards one (h5py 3 pinned), that every write sink in the package is classified and none takes a database-derived path, '
            'that HDF5 mutators live only in the writer functions reachable only from `signatures create`, and that no session write call or store on a given object exists on the read side.',
            "SQLite read-only use of a read-write handle does not write; h5py mode 'r'."),
    'C14': ('abstract interpretation of each click command over None-ness x equality classes of k-mer-parameter entities; all abstract paths enumerated (states split, never joined)',
            'Decides for every option combination (abstract path) of every signature-handling command that all signature operands of each comparison sink have known-equal parameters (found the repaired `query -s` defect), '
            'that explicit -k/--prefix in dist agree with every operand, that every differ-path ends in raise click.ClickException before any sink/output, and the -k/--prefix / --db-params option discipline.',
            'click maps ClickException to a non-zero exit; KmerSpec equality is (k, prefix).'),
    'C20': ('may-alias forward dataflow over the statement CFG + value-flow path conditions for the index dispatch + affine slice arithmetic with section rewriting + per-iteration model of the fill loop + identity-return rule + class-table rules + class-hierarchy rule (every class inheriting the equality template evaluated with its own hooks)',
            'Decides that no in-place write can reach memory that may alias a caller argument (np.asarray/views alias, copy()/arithmetic are fresh; found the repaired index-buffer defect; positive control embedded), '
            'exhaustive index dispatch with the right errors, _check_index arithmetic, element/length/contiguous-slice arithmetic, kmerspec/dtype propagation into sub-collections, list delegation of SignatureList mutators, equality.',
            'slice.indices, np.arange, np.flatnonzero, np.array_equal; NumPy view semantics of np.asarray.'),
    'C03': ('path-enumerated value flow for classify()/get_result_item (structural) + plain-record rule on the result classes + bounded abstract evaluation of the parsed lineage walks (matching_taxon, ancestors, next_taxon, reportable_taxon) on every lineage up to depth 5 with a statement/branch coverage side-condition',
            'NOTE: D1/D2/D4/D5 are decided by interpreting the parsed functions on a finite lineage domain (bounded, DESIGN.md 12); D3/D6/D7 are structural. Decides the threshold guard (conjunct set, <= with equality, lineage order, first hit), the ancestors walk, argmin + same-index pairing and the non-strict result fields, '
            'that EVERY taxon returned as "next" has passed a threshold-present test on every path (this rule found the repaired next_taxon defect), the reportable walk and the wiring in get_result_item.',
            'np.argmin returns the first minimum; composition of the clauses for every forest is a hand argument.'),
    'C04': ('element-derivation descriptions of the genome/index lists (one source, one filter) + value flow of the constructor stores + affine completeness facts + sibling agreement of the two suffix groups + C05-B5 re-evaluated',
            'Decides that genome/index lists are built in one block under one guard from one enumerate over the non-strict, order-preserving per-ID lookup; id map orientation; that the id_attr and completeness raises dominate every normal exit of the constructor; '
            'id attribute whitelist; exactly-one-file checks before a file is taken; that query() uses signatures, index list and genomes of one database object.',
            'SQLAlchemy row order (entity, added column); dict.get.'),
    'C09': ('value-flow rule on the ordering expression and the list derivation (comprehension / append loop) + closest-match integrity + plain-record rule + package-wide sweep of ordering calls + C05-B5 (chunk-size independence of the distance row) re-evaluated; when the structural rule cannot read the list derivation, bounded evaluation of the parsed get_result_item on rows of length 1..4 x N in {1,2,3,5} with an adversarial (tie-arbitrary) model of unstable sorts and a coverage side-condition',
            'Decides that the closest-genomes order is produced by a stable ascending sort of the whole distance row (found the repaired unstable-argsort defect), truncated by a prefix slice afterwards, that the closest match is the first minimum, '
            'that every entry pairs genome and distance through the one index and derives its taxon from that distance; every other ordering call in the package is classified.',
            "np.argsort kind='stable' is stable, the default is not; np.argmin first minimum."),
    'C10': ('program-dependence rule on the consensus fold (conflict latch) + structural guard rule on find_matches + bounded abstract evaluation of the parsed consensus_taxon / find_matches / strict classify on every rooted forest up to 5 nodes (6 in the thorough tier) x every order of up to 4 taxa, monotone and non-monotone thresholds + wiring rule for the --strict flag (click option -> QueryParams -> query_cmd -> query_parse -> query) + C08-A6 effect rule re-evaluated (no memo across calls / databases)',
            'NOTE: N1-N5 are decided by interpreting the parsed functions on a finite forest domain (bounded, DESIGN.md 12) next to the two structural rules. Decides necessary conditions: the fold cannot re-specialise after a conflict (latch initialised, set at every truncation, never cleared, tested before descending - found the repaired order-dependence defect), '
            'others / empty / no-common-ancestor exits, warning exactly under the conflicting set, failure exactly under no consensus, primary match = nearest candidate at or below the consensus.',
            'Correctness of trunk.index / suffix slicing as an LCA search for every forest is a hand argument (necessary conditions only).'),
    'C13': ('def-use through the future->index map (for statement or comprehension) + per-path executor / with-context rule + list-identity of the returned collection + no package context manager swallows an exception (schedule-independent by construction)',
            'Decides for EVERY completion order that a result is stored at the submit-time index of its own future (map store at the submit site, store index defined as map[f] of the same f, pre-sized list, no positional collection), '
            'that every future is awaited via .result() outside any handler, sequential branch order, worker identity, executor lifetime, list-preserving result.',
            'concurrent.futures semantics (result() re-raises; as_completed yields each future once).'),
    'C01': ('symbolic trace of the search loops (find calls with affine start/end, restart at hit+1, exit on miss; two iterations unrolled to a fixpoint; package generators are run by the trace) + affine slice arithmetic per path + existential reading of the case-folding guard + sibling agreement of the accumulators + exhaustive evaluation of index_dtype for k = 1..32',
            'Decides the premises of the set-equality argument: both search loops (start, window end, restart at loc+1, exit on miss, yielded '
            'position and strand), slice bounds per strand and their composition with the yielded positions (adjacent to the prefix, length k, '
            'inside the sequence), strand dispatch, ValueError-only skip discipline, case folding, both accumulators (dtype, storage, '
            'sorted-unique result), index_dtype for every k in 1..32, per-sequence loop with one shared accumulator, input-type coverage.',
            'bytes.find semantics; np.flatnonzero / ndarray.sort; encoder correctness is C07. The implication premises => exact set is a hand argument.'),
    'C02': ('abstract interpretation of the merge kernel over the ordering domain {<,=,>} + affine normal forms + fused-type agreement + the Python dtype gate decided as a table over the complete domain of integer/float/bool dtypes (custom Cython front end)',
            'Decides that the kernel counts the union exactly for every pair of sorted arrays (the data are provably touched only through '
            'comparisons, so three orderings are exhaustive), the tail and zero-guard, that the result is one binary32 division of exactly '
            'converted integers (2u-N-M)/u, the independent unsigned fused types, wrappers, and that every kernel operand passes the dtype gate as the data the caller passed, that the cells the bulk functions report are kernel values stored in the returned buffer (C05-B1 re-evaluated) (not after a re-collection into a first-element-dtype array).',
            'C usual arithmetic conversions between unsigned widths; IEEE-754 correctly rounded division; sets < 2^24 elements.'),
    'C15': ('role-swap invariance of the facts extracted by the C02 abstract interpretation + the C02 kernel and dtype-gate rules and the C05 bulk-entry rules re-evaluated',
            'Decides bit-for-bit symmetry structurally (loop condition, ordering table, loads, tail and numerator are invariant under swapping the '
            'argument roles; independent fused types give width independence) and the premise that the kernel computes |A xor B|/|A or B| rounded once. '
            'Range, identity, disjointness, triangle inequality and strict decrease are mathematical consequences, stated not machine-checked.',
            'As C02; monotonicity of correctly rounded division.'),
    'C07': ('finite-domain table extraction from the .pyx (custom Cython front end) + affine index forms + guard dominance',
            'Decides the structural clauses of the codec: one loop iteration of each encoder is evaluated for all 256 byte values, the '
            'decoder for all 16 low-digit pairs, the complement table for all 256 bytes; read/write indices, shift order, k<=32 guard, '
            'error-flag path, C types and public bindings are rule-checked. From these premises the base-4 bijection follows by a hand '
            'argument (DESIGN 5/C07); the premises are decided on every run, the argument is not machine-checked.',
            'Cython integer semantics on uint64_t/unsigned char; the installed .so is built from the analysed .pyx.'),
}

NOT_YET = 'check not built yet in this round (planned, DESIGN.md section 5); not claimed until its rules exist and are silent on the tree'

NOT_APPLICABLE = {
    'C19': 'crash-point durability is decided by libhdf5 metadata-cache / OS page-cache behaviour that is not in gambit\'s source; '
           'no sound static rule over the ~15 writer lines is a necessary condition of the property (DESIGN.md section 5/C19); '
           'the reader-side refusal clauses are checked under C12',
}


def main():
    props = [json.loads(l)['id'] for l in open(os.path.join(HERE, 'properties.jsonl'))]
    checks = []
    na = []
    for pid in props:
        if pid in CLAIMED:
            tech, text, note = CLAIMED[pid]
            checks.append(dict(
                property_id=pid,
                quick_cmd=f'./check {pid} --tier quick',
                thorough_cmd=f'./check {pid} --tier thorough',
                evidence_file=f'/verif/evidence/{pid}.json',
                replay_cmd_template=f'./check {pid} --replay {{path}}',
                engine='gsa',
                level_claimed=dict(category='other',
                                   text='Static rule check: N obligations extracted from the current source, each discharged by a named rule '
                                        '(obligations/discharged reported in the evidence). ' + text,
                                   design_ref=f'DESIGN.md section 5 / {pid}'),
                level_note=note + ' Global trusted base: DESIGN.md R-7. Exit 2 (ANALYSIS-ERROR) means the shape of the code is outside '
                                  'the recognised idioms: neither a pass nor a violation.',
                technique=tech,
            ))
        elif pid in NOT_APPLICABLE:
            na.append(dict(property_id=pid, reason=NOT_APPLICABLE[pid]))
        else:
            na.append(dict(property_id=pid, reason=NOT_YET))
    manifest = dict(
        version=1,
        setup_cmd='/venv/bin/python -m compileall -q gsa >/dev/null 2>&1 || python3 -m compileall -q gsa >/dev/null 2>&1 || true',
        hooks=dict(guard='GAMBIT_VERIF',
                   enable='none needed: static analysis reads the source; no instrumentation exists in /repo',
                   baseline_off_cmd='cd /repo && /venv/bin/python -m pytest -ra -q -p no:cacheprovider --timeout=900 --continue-on-collection-errors',
                   source_commits=[],
                   add_only=True),
        engines=[dict(name='gsa', path='/verif/gsa', serves_properties=[c['property_id'] for c in checks],
                      kind_free_text='repository-specific static analyser (pure stdlib): ast + custom Cython front end, affine normal '
                                     'forms, CFG/dominators/path conditions, finite-domain table extraction, abstract interpreters, '
                                     'call-graph effect/taint rules; variant self-test harness')],
        checks=checks,
        not_applicable=na,
        notes='All checks: exit 0 = every obligation discharged; exit 1 + VIOLATION line = a rule instance is violated; exit 2 + '
              'ANALYSIS-ERROR = cannot decide (never reported as a violation). See DESIGN.md.',
    )
    with open(os.path.join(HERE, 'MANIFEST.json'), 'w') as f:
        json.dump(manifest, f, indent=1)
    print('claimed', [c['property_id'] for c in checks])


if __name__ == '__main__':
    main()
