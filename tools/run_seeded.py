#!/usr/bin/env python3
"""Run the checkers against seeded changes: for each /verif/seeded/<id>/patch.diff (or a patch given on the command
line) apply it to a scratch copy of the CURRENT /repo sources (outside /repo and /verif), run every property check on
that copy, and print which checks report a violation.  The scratch copy is removed immediately.

usage: tools/run_seeded.py [--all-props] [seed-id | path/to/patch.diff ...]
"""
import json
import os
import shutil
import subprocess
import sys
import tempfile

HERE = os.path.dirname(os.path.dirname(os.path.abspath(__file__)))
sys.path.insert(0, HERE)

from gsa.main import run_property, PROPS   # noqa: E402
from gsa.variants import copy_sources      # noqa: E402


def run_patch(patch, props, repo='/repo'):
    tmp = tempfile.mkdtemp(prefix='gsa_seed_')
    try:
        copy_sources(repo, tmp)
        r = subprocess.run(['git', 'apply', '--include', 'src/*', '--include', 'setup.cfg', '--include', 'docs/*', os.path.abspath(patch)],
                           cwd=tmp, capture_output=True, text=True)
        changed = subprocess.run(['diff', '-rq', os.path.join(repo, 'src', 'gambit'), os.path.join(tmp, 'src', 'gambit'), '-x', '*.so', '-x', '*.c', '-x', '__pycache__'],
                                 capture_output=True, text=True).stdout
        if r.returncode == 0 and 'differ' not in changed and 'Only in' not in changed:
            return None, 'patch applied but changed nothing'
        if r.returncode != 0:
            r = subprocess.run(['patch', '-p1', '-s', '-i', os.path.abspath(patch)], cwd=tmp, capture_output=True, text=True)
            if r.returncode != 0:
                return None, f'patch does not apply: {r.stderr.strip()[:200]} {r.stdout.strip()[:200]}'
        out = {}
        for p in props:
            rep, und = run_property(p, tmp, 'quick')
            viol = [o for o in rep.obs if not o.ok]
            if viol:
                out[p] = ('VIOLATION', sorted({o.rule for o in viol}), [f'{o.file}:{o.line} {o.desc[:90]} | found: {str(o.found)[:90]}' for o in viol[:3]])
            elif und is not None:
                out[p] = ('ANALYSIS-ERROR', [], [und[:200]])
        return out, None
    finally:
        shutil.rmtree(tmp, ignore_errors=True)


def _one(a):
    return run_patch(a[0], a[1])


def main():
    args = [a for a in sys.argv[1:] if not a.startswith('--')]
    sd = os.path.join(HERE, 'seeded')
    items = []
    if not args:
        args = sorted(os.listdir(sd)) if os.path.isdir(sd) else []
    for a in args:
        if os.path.isfile(a):
            items.append((os.path.basename(os.path.dirname(os.path.abspath(a))) or a, a, None))
        else:
            d = os.path.join(sd, a)
            meta = json.load(open(os.path.join(d, 'meta.json'))) if os.path.exists(os.path.join(d, 'meta.json')) else {}
            items.append((a, os.path.join(d, 'patch.diff'), meta.get('property')))
    props = [p for p in PROPS if p != 'C19']
    missed = 0
    jobs = int(os.environ.get('GSA_JOBS', '14'))
    from concurrent.futures import ProcessPoolExecutor
    with ProcessPoolExecutor(max_workers=jobs) as ex:
        results = list(ex.map(_one, [(pt, props) for _, pt, _ in items]))
    for (name, patch, target), (res, err) in zip(items, results):
        if err:
            print(f'{name}: ERROR {err}')
            continue
        hit = [p for p, v in res.items() if v[0] == 'VIOLATION']
        und = [p for p, v in res.items() if v[0] == 'ANALYSIS-ERROR']
        status = 'CAUGHT' if (target in hit if target else bool(hit)) else ('caught-by-other' if hit else 'MISSED')
        if status == 'MISSED':
            missed += 1
        print(f'{name}: target={target} {status}; violations: {hit}; analysis-errors: {und}')
        for p in hit + und:
            kind, rules, lines = res[p]
            print(f'    {p} {kind} {rules}')
            for l in lines[:2]:
                print(f'        {l}')
    return 1 if missed else 0


if __name__ == '__main__':
    raise SystemExit(main())
