#!/usr/bin/env python3
"""Mutation probe (development aid, not a registered check): one-site AST mutants of /repo's Python sources, every static
check run on each mutant.  Output: which mutants no check reports.  Those are either behaviour-neutral / outside every
property, or a gap - the list is for reading, the tool decides nothing.

usage: tools/mutate.py [--files f1.py,f2.py] [--funcs qual.name,...] [--ops cmp,arith,const,bool,del,not,swap] [--jobs N] [--out FILE]
"""
import ast
import copy
import json
import os
import shutil
import sys
import tempfile
from concurrent.futures import ProcessPoolExecutor

HERE = os.path.dirname(os.path.dirname(os.path.abspath(__file__)))
sys.path.insert(0, HERE)
from gsa.main import run_property, PROPS      # noqa: E402
from gsa.variants import copy_sources         # noqa: E402

REPO = os.environ.get('GSA_REPO', '/repo')
CMP = {ast.Lt: ast.LtE, ast.LtE: ast.Lt, ast.Gt: ast.GtE, ast.GtE: ast.Gt, ast.Eq: ast.NotEq, ast.NotEq: ast.Eq, ast.Is: ast.IsNot, ast.IsNot: ast.Is,
       ast.In: ast.NotIn, ast.NotIn: ast.In}


def sites(tree):
    """Yield (op, node_index, description) for every mutation site; node_index indexes ast.walk order."""
    for idx, n in enumerate(ast.walk(tree)):
        if isinstance(n, ast.Compare) and len(n.ops) == 1 and type(n.ops[0]) in CMP:
            yield ('cmp', idx, 0)
        elif isinstance(n, ast.BinOp) and isinstance(n.op, (ast.Add, ast.Sub)):
            yield ('arith', idx, 0)
        elif isinstance(n, ast.Constant) and isinstance(n.value, bool):
            yield ('const', idx, 0)
        elif isinstance(n, ast.Constant) and isinstance(n.value, int) and abs(n.value) < 70:
            yield ('const', idx, 1)
            yield ('const', idx, -1)
        elif isinstance(n, ast.BoolOp):
            yield ('bool', idx, 0)
        elif isinstance(n, ast.Expr) and isinstance(n.value, ast.Call):
            yield ('del', idx, 0)
        elif isinstance(n, (ast.If, ast.While, ast.IfExp)):
            yield ('not', idx, 0)
        elif isinstance(n, ast.Call) and len(n.args) >= 2 and not any(isinstance(a, ast.Starred) for a in n.args[:2]):
            yield ('swap', idx, 0)
        elif isinstance(n, ast.Slice) and n.upper is not None:
            yield ('slice', idx, 1)
        elif isinstance(n, (ast.Break, ast.Continue)):
            yield ('brk', idx, 0)
        if isinstance(n, ast.Call) and n.keywords:
            for k, kw in enumerate(n.keywords):
                if kw.arg is not None and not (isinstance(kw.value, ast.Constant) and kw.value.value is None):
                    yield ('dropkw', idx, k)
        if isinstance(n, ast.FunctionDef) and len(n.body) >= 2:
            # guard clause: `if len(P) == 1: return <R>` - P a parameter whose length is taken or that is iterated, R the name the
            # function returns at its end (bare return for procedures / generators)
            own = [x for x in ast.walk(n)]
            params = {a.arg for a in n.args.posonlyargs + n.args.args + n.args.kwonlyargs} - {'self', 'cls'}
            cand = set()
            for c in own:
                if isinstance(c, ast.Call) and isinstance(c.func, ast.Name) and c.func.id in ('len', 'enumerate', 'zip', 'zip_strict') :
                    cand |= {a.id for a in c.args if isinstance(a, ast.Name)}
                if isinstance(c, (ast.For, ast.comprehension)) and isinstance(c.iter, ast.Name):
                    cand.add(c.iter.id)
            last = n.body[-1]
            valued = [r for r in own if isinstance(r, ast.Return) and r.value is not None]
            if isinstance(last, ast.Return) and isinstance(last.value, ast.Name):
                x = last.value.id
                first = next((j for j, st in enumerate(n.body) if any(isinstance(t, ast.Name) and t.id == x and isinstance(t.ctx, ast.Store) for t in ast.walk(st))), None)
                poss = sorted({first + 1, len(n.body) - 1}) if first is not None else []
                names = sorted(cand)
            elif not valued:
                x = ''
                doc = 1 if isinstance(n.body[0], ast.Expr) and isinstance(n.body[0].value, ast.Constant) else 0
                poss = sorted({doc, len(n.body) - 1}) if len(n.body) - doc >= 2 else []
                names = sorted(cand & params)
            else:
                poss, names, x = [], [], ''
            for pos in poss:
                for name in names:
                    yield ('guard', idx, f'{pos}:{name}:{x}')


def mutate(tree, op, idx, arg):
    t = copy.deepcopy(tree)
    n = list(ast.walk(t))[idx]
    before = ast.unparse(n)[:80]
    if op == 'cmp':
        n.ops = [CMP[type(n.ops[0])]()]
    elif op == 'arith':
        n.op = ast.Sub() if isinstance(n.op, ast.Add) else ast.Add()
    elif op == 'const':
        n.value = (not n.value) if isinstance(n.value, bool) else n.value + arg
    elif op == 'bool':
        n.op = ast.Or() if isinstance(n.op, ast.And) else ast.And()
    elif op == 'del':
        n.value = ast.Constant(value=None)
    elif op == 'not':
        n.test = ast.UnaryOp(op=ast.Not(), operand=n.test)
    elif op == 'swap':
        n.args[0], n.args[1] = n.args[1], n.args[0]
    elif op == 'slice':
        n.upper = ast.BinOp(left=n.upper, op=ast.Add(), right=ast.Constant(value=1))
    elif op == 'dropkw':
        del n.keywords[arg]
    elif op == 'guard':
        pos, name, x = arg.split(':')
        g = ast.parse(f'if len({name}) == 1:\n    return {x}').body[0]
        before = f'<{n.name} body[{pos}]>'
        n.body.insert(int(pos), g)
    elif op == 'brk':
        # break <-> continue
        parent = None
        for p in ast.walk(t):
            for f, v in ast.iter_fields(p):
                if isinstance(v, list) and n in v:
                    v[v.index(n)] = ast.Continue() if isinstance(n, ast.Break) else ast.Break()
                    parent = p
        if parent is None:
            return None, None, None
    ast.fix_missing_locations(t)
    after = 'break<->continue' if op == 'brk' else (f'if len({arg.split(":")[1]}) == 1: return ...' if op == 'guard' else ast.unparse(list(ast.walk(t))[idx])[:80])
    return t, before, after


def enclosing(tree, lineno):
    best = None
    for n in ast.walk(tree):
        if isinstance(n, (ast.FunctionDef, ast.AsyncFunctionDef)) and n.lineno <= lineno <= getattr(n, 'end_lineno', n.lineno):
            if best is None or n.lineno >= best.lineno:
                best = n
    return best.name if best else '<module>'


def run_one(job):
    rel, op, idx, arg = job
    src = open(os.path.join(REPO, rel), encoding='utf-8').read()
    tree = ast.parse(src)
    node = list(ast.walk(tree))[idx]
    line = getattr(node, 'lineno', 0)
    t, before, after = mutate(tree, op, idx, arg)
    if t is None:
        return None
    new = ast.unparse(t)
    tmp = tempfile.mkdtemp(prefix='gsa_mut_')
    try:
        copy_sources(REPO, tmp)
        open(os.path.join(tmp, rel), 'w', encoding='utf-8').write(new + '\n')
        hits, und = [], []
        for p in PROPS:
            if p == 'C19':
                continue
            rep, u_ = run_property(p, tmp, 'quick')
            if any(not o.ok for o in rep.obs):
                hits.append(p)
            elif u_ is not None:
                und.append(p)
        return dict(file=rel, line=line, func=enclosing(tree, line), op=op, arg=arg, idx=idx, before=before, after=after, hits=hits, undecided=und)
    finally:
        shutil.rmtree(tmp, ignore_errors=True)


def main():
    args = sys.argv[1:]

    def opt(name, default=None):
        if name in args:
            return args[args.index(name) + 1]
        return default
    files = opt('--files')
    ops = set((opt('--ops') or 'cmp,arith,const,bool,del,not,swap,slice,brk,dropkw,guard').split(','))
    funcs = set((opt('--funcs') or '').split(',')) - {''}
    jobs_n = int(opt('--jobs', '12'))
    out = opt('--out', '/tmp/mutants.json')
    rels = []
    if files:
        rels = [f if f.startswith('src/') else os.path.join('src', 'gambit', f) for f in files.split(',')]
    else:
        for d, dn, fn in os.walk(os.path.join(REPO, 'src', 'gambit')):
            rels += [os.path.relpath(os.path.join(d, f), REPO) for f in fn if f.endswith('.py')]
    jobs = []
    for rel in sorted(rels):
        tree = ast.parse(open(os.path.join(REPO, rel), encoding='utf-8').read())
        nodes = list(ast.walk(tree))
        for op, idx, arg in sites(tree):
            if op not in ops:
                continue
            line = getattr(nodes[idx], 'lineno', 0)
            fn = enclosing(tree, line)
            if funcs and fn not in funcs:
                continue
            if fn == '<module>' and op in ('const',):
                pass
            jobs.append((rel, op, idx, arg))
    print(f'{len(jobs)} mutants over {len(rels)} files', flush=True)
    with ProcessPoolExecutor(max_workers=jobs_n) as ex:
        res = [r for r in ex.map(run_one, jobs, chunksize=4) if r]
    json.dump(res, open(out, 'w'), indent=0)
    det = [r for r in res if r['hits']]
    und = [r for r in res if not r['hits'] and r['undecided']]
    sil = [r for r in res if not r['hits'] and not r['undecided']]
    print(f'mutants {len(res)}: reported {len(det)}, exit-2 only {len(und)}, silent {len(sil)}')
    byf = {}
    for r in res:
        k = (r['file'], r['func'])
        b = byf.setdefault(k, [0, 0, 0])
        b[0 if r['hits'] else (1 if r['undecided'] else 2)] += 1
    for (f, fn), (a, b, c) in sorted(byf.items()):
        print(f'  {f}:{fn}: reported {a}, exit-2 {b}, silent {c}')
    return 0


if __name__ == '__main__':
    raise SystemExit(main())
