#!/usr/bin/env python3
"""False-alarm probe: apply behaviour-preserving AST refactorings to scratch copies of the current /repo sources and run
every check on them.  Any VIOLATION is a false alarm of the checker (the behaviour is unchanged); ANALYSIS-ERROR (exit 2)
counts the places where the recognised idioms are too narrow.

usage: tools/refactor_fuzz.py [--per-file] [transform ...]
Transforms: flipcmp ifswap commute rename retvar kwrev notnot
"""
import ast
import os
import shutil
import sys
import tempfile
from concurrent.futures import ProcessPoolExecutor

HERE = os.path.dirname(os.path.dirname(os.path.abspath(__file__)))
sys.path.insert(0, HERE)
from gsa.main import run_property, PROPS      # noqa: E402
from gsa.variants import copy_sources         # noqa: E402

SWAP = {ast.Lt: ast.Gt, ast.Gt: ast.Lt, ast.LtE: ast.GtE, ast.GtE: ast.LtE, ast.Eq: ast.Eq, ast.NotEq: ast.NotEq}


class FlipCmp(ast.NodeTransformer):
    def visit_Compare(self, node):
        self.generic_visit(node)
        if len(node.ops) == 1 and type(node.ops[0]) in SWAP and not (isinstance(node.comparators[0], ast.Constant) and node.comparators[0].value is None):
            return ast.Compare(left=node.comparators[0], ops=[SWAP[type(node.ops[0])]()], comparators=[node.left])
        return node


class IfSwap(ast.NodeTransformer):
    def visit_If(self, node):
        self.generic_visit(node)
        if node.orelse and not (len(node.orelse) == 1 and isinstance(node.orelse[0], ast.If)):
            return ast.If(test=ast.UnaryOp(op=ast.Not(), operand=node.test), body=node.orelse, orelse=node.body)
        return node

    def visit_IfExp(self, node):
        self.generic_visit(node)
        return ast.IfExp(test=ast.UnaryOp(op=ast.Not(), operand=node.test), body=node.orelse, orelse=node.body)


class Commute(ast.NodeTransformer):
    def visit_BinOp(self, node):
        self.generic_visit(node)
        if isinstance(node.op, ast.Add) and isinstance(node.right, ast.Constant) and isinstance(node.right.value, int) and not isinstance(node.left, ast.Constant):
            return ast.BinOp(left=node.right, op=ast.Add(), right=node.left)
        return node


class KwRev(ast.NodeTransformer):
    def visit_Call(self, node):
        self.generic_visit(node)
        if len(node.keywords) > 1 and all(k.arg is not None for k in node.keywords):
            node.keywords = list(reversed(node.keywords))
        return node


class RetVar(ast.NodeTransformer):
    """return <call/binop/...>  ->  _rv = <expr>; return _rv   (only in plain functions, not generators / lambdas)"""

    def visit_FunctionDef(self, node):
        self.generic_visit(node)
        if any(isinstance(n, (ast.Yield, ast.YieldFrom)) for n in ast.walk(node)):
            return node

        def rewrite(stmts):
            out = []
            for s in stmts:
                for f in ('body', 'orelse', 'finalbody'):
                    b = getattr(s, f, None)
                    if isinstance(b, list) and b and isinstance(b[0], ast.stmt) and not isinstance(s, (ast.FunctionDef, ast.ClassDef)):
                        setattr(s, f, rewrite(b))
                if isinstance(s, ast.Try):
                    for h in s.handlers:
                        h.body = rewrite(h.body)
                if isinstance(s, ast.Return) and s.value is not None and isinstance(s.value, (ast.Call, ast.BinOp, ast.Subscript, ast.ListComp, ast.IfExp, ast.BoolOp, ast.Compare)):
                    out.append(ast.Assign(targets=[ast.Name(id='_rv', ctx=ast.Store())], value=s.value, lineno=s.lineno))
                    out.append(ast.Return(value=ast.Name(id='_rv', ctx=ast.Load())))
                else:
                    out.append(s)
            return out
        node.body = rewrite(node.body)
        return node


class Rename(ast.NodeTransformer):
    """Consistently rename the locals (not parameters) of every function that has no nested scopes."""

    def visit_FunctionDef(self, node):
        nested = [n for n in ast.walk(node) if n is not node and isinstance(n, (ast.FunctionDef, ast.Lambda, ast.ClassDef))]
        if nested:
            self.generic_visit(node)
            return node
        a = node.args
        params = {x.arg for x in a.posonlyargs + a.args + a.kwonlyargs} | ({a.vararg.arg} if a.vararg else set()) | ({a.kwarg.arg} if a.kwarg else set())
        globs = set()
        for n in ast.walk(node):
            if isinstance(n, (ast.Global, ast.Nonlocal)):
                globs |= set(n.names)
        stored = {n.id for n in ast.walk(node) if isinstance(n, ast.Name) and isinstance(n.ctx, ast.Store)} - params - globs
        for n in ast.walk(node):
            if isinstance(n, ast.Name) and n.id in stored:
                n.id = n.id + '_v'
        return node


class NotNot(ast.NodeTransformer):
    """x is not None  ->  not x is None"""

    def visit_Compare(self, node):
        self.generic_visit(node)
        if len(node.ops) == 1 and isinstance(node.ops[0], ast.IsNot):
            return ast.UnaryOp(op=ast.Not(), operand=ast.Compare(left=node.left, ops=[ast.Is()], comparators=node.comparators))
        return node


class AugExpand(ast.NodeTransformer):
    """x += e  ->  x = x + e   (names only)"""

    def visit_AugAssign(self, node):
        self.generic_visit(node)
        if isinstance(node.target, ast.Name) and isinstance(node.op, (ast.Add, ast.Sub)):
            return ast.Assign(targets=[ast.Name(id=node.target.id, ctx=ast.Store())], value=ast.BinOp(left=ast.Name(id=node.target.id, ctx=ast.Load()), op=node.op, right=node.value), lineno=node.lineno)
        return node


class WithSplit(ast.NodeTransformer):
    """with a, b: body  ->  with a: with b: body"""

    def visit_With(self, node):
        self.generic_visit(node)
        if len(node.items) > 1:
            inner = ast.With(items=node.items[1:], body=node.body, lineno=node.lineno)
            return ast.With(items=node.items[:1], body=[inner], lineno=node.lineno)
        return node


class Kwargify(ast.NodeTransformer):
    """f(a, b) -> f(p1=a, p2=b) for calls of module-level package functions whose name is unique in the package."""
    SIGS = None

    @classmethod
    def load(cls):
        if cls.SIGS is None:
            from gsa.model import Model
            m = Model('/repo')
            by_name = {}
            for q, f in m.functions.items():
                if f.cls is None and f.module.kind == 'py':
                    by_name.setdefault(f.name, []).append(f)
            cls.SIGS = {}
            for name, fs in by_name.items():
                if len(fs) == 1:
                    a = fs[0].node.args
                    if not a.posonlyargs and not a.vararg:
                        cls.SIGS[name] = [x.arg for x in a.args]
        return cls.SIGS

    def visit_Call(self, node):
        self.generic_visit(node)
        sigs = self.load()
        name = node.func.id if isinstance(node.func, ast.Name) else node.func.attr if isinstance(node.func, ast.Attribute) and isinstance(node.func.value, ast.Name) and node.func.value.id in ('common', 'gjson') else None
        if name in sigs and node.args and not any(isinstance(a, ast.Starred) for a in node.args) and len(node.args) <= len(sigs[name]) \
                and name not in ('zip_strict', 'get_progress', 'iter_progress', 'progress_config'):
            params = sigs[name]
            keep = 1 if len(node.args) > 1 else 0      # keep the first positional (reads naturally), keywordise the rest
            newkw = [ast.keyword(arg=params[i], value=a) for i, a in enumerate(node.args) if i >= keep]
            if any(k.arg in {x.arg for x in node.keywords} for k in newkw):
                return node
            node.args = node.args[:keep]
            node.keywords = newkw + node.keywords
        return node


def _pure_callee(f):
    return isinstance(f, ast.Name) or (isinstance(f, ast.Attribute) and _pure_callee(f.value))


class HoistArgs(ast.NodeTransformer):
    """x = f(g(a), h(b))  ->  _h0 = g(a); _h1 = h(b); x = f(_h0, _h1)   (call arguments that are calls, hoisted in evaluation order;
    only for plain assignment / expression / return statements whose value is a call with a side-effect free callee expression)"""

    def _rewrite_block(self, stmts):
        out = []
        for s in stmts:
            for f in ('body', 'orelse', 'finalbody'):
                b = getattr(s, f, None)
                if isinstance(b, list) and b and isinstance(b[0], ast.stmt) and not isinstance(s, (ast.FunctionDef, ast.AsyncFunctionDef, ast.ClassDef)):
                    setattr(s, f, self._rewrite_block(b))
            if isinstance(s, ast.Try):
                for h in s.handlers:
                    h.body = self._rewrite_block(h.body)
            call = s.value if isinstance(s, (ast.Assign, ast.Expr, ast.Return)) and isinstance(getattr(s, 'value', None), ast.Call) else None
            if call is not None and _pure_callee(call.func) and not any(isinstance(a, ast.Starred) for a in call.args) and self.in_func and not self.is_gen:
                k = 0
                pre = []
                seen_complex = False
                for i, a in enumerate(call.args):
                    if isinstance(a, ast.Call) and not seen_complex:
                        name = f'_h{self.counter}'
                        self.counter += 1
                        pre.append(ast.Assign(targets=[ast.Name(id=name, ctx=ast.Store())], value=a, lineno=s.lineno))
                        call.args[i] = ast.Name(id=name, ctx=ast.Load())
                        k += 1
                    elif not isinstance(a, (ast.Name, ast.Constant)):
                        seen_complex = True     # later calls may not be moved before this argument's evaluation
                out.extend(pre)
            out.append(s)
        return out

    def visit_FunctionDef(self, node):
        self.counter = 0
        self.in_func = True
        self.is_gen = False
        node.body = self._rewrite_block(node.body)
        return node


class LoopToComp(ast.NodeTransformer):
    """xs = []; for v in it: xs.append(e)  ->  xs = [e for v in it]   (adjacent statements, single append, xs not used in e / it)"""

    def _rewrite_block(self, stmts):
        out = []
        i = 0
        while i < len(stmts):
            s = stmts[i]
            nxt = stmts[i + 1] if i + 1 < len(stmts) else None
            if isinstance(s, ast.Assign) and len(s.targets) == 1 and isinstance(s.targets[0], ast.Name) and isinstance(s.value, ast.List) and not s.value.elts \
                    and isinstance(nxt, ast.For) and not nxt.orelse and len(nxt.body) == 1 and isinstance(nxt.body[0], ast.Expr) and isinstance(nxt.body[0].value, ast.Call):
                c = nxt.body[0].value
                xs = s.targets[0].id
                if isinstance(c.func, ast.Attribute) and c.func.attr == 'append' and isinstance(c.func.value, ast.Name) and c.func.value.id == xs and len(c.args) == 1 and not c.keywords \
                        and xs not in {n.id for n in ast.walk(c.args[0]) if isinstance(n, ast.Name)} and xs not in {n.id for n in ast.walk(nxt.iter) if isinstance(n, ast.Name)}:
                    comp = ast.ListComp(elt=c.args[0], generators=[ast.comprehension(target=nxt.target, iter=nxt.iter, ifs=[], is_async=0)])
                    out.append(ast.Assign(targets=[ast.Name(id=xs, ctx=ast.Store())], value=comp, lineno=s.lineno))
                    i += 2
                    continue
            for f in ('body', 'orelse', 'finalbody'):
                b = getattr(s, f, None)
                if isinstance(b, list) and b and isinstance(b[0], ast.stmt) and not isinstance(s, (ast.ClassDef,)):
                    setattr(s, f, self._rewrite_block(b))
            if isinstance(s, ast.Try):
                for h in s.handlers:
                    h.body = self._rewrite_block(h.body)
            out.append(s)
            i += 1
        return out

    def visit_Module(self, node):
        node.body = self._rewrite_block(node.body)
        return node


class CompToLoop(ast.NodeTransformer):
    """xs = [e for v in it (if c)]  ->  xs = []; for v in it: (if c:) xs.append(e)   (single generator, plain assignment to a name)"""

    def _rewrite_block(self, stmts):
        out = []
        for s in stmts:
            for f in ('body', 'orelse', 'finalbody'):
                b = getattr(s, f, None)
                if isinstance(b, list) and b and isinstance(b[0], ast.stmt) and not isinstance(s, (ast.ClassDef,)):
                    setattr(s, f, self._rewrite_block(b))
            if isinstance(s, ast.Try):
                for h in s.handlers:
                    h.body = self._rewrite_block(h.body)
            if isinstance(s, ast.Assign) and len(s.targets) == 1 and isinstance(s.targets[0], ast.Name) and isinstance(s.value, ast.ListComp) and len(s.value.generators) == 1 \
                    and not s.value.generators[0].is_async and self.depth > 0:
                g = s.value.generators[0]
                xs = s.targets[0].id
                names = {n.id for n in ast.walk(s.value) if isinstance(n, ast.Name)}
                if xs not in names:
                    app = ast.Expr(value=ast.Call(func=ast.Attribute(value=ast.Name(id=xs, ctx=ast.Load()), attr='append', ctx=ast.Load()), args=[s.value.elt], keywords=[]))
                    body = [app]
                    for c in reversed(g.ifs):
                        body = [ast.If(test=c, body=body, orelse=[])]
                    out.append(ast.Assign(targets=[ast.Name(id=xs, ctx=ast.Store())], value=ast.List(elts=[], ctx=ast.Load()), lineno=s.lineno))
                    out.append(ast.For(target=g.target, iter=g.iter, body=body, orelse=[], lineno=s.lineno))
                    continue
            out.append(s)
        return out

    def visit_FunctionDef(self, node):
        self.depth = getattr(self, 'depth', 0) + 1
        node.body = self._rewrite_block(node.body)
        self.depth -= 1
        return node


def _always_exits(stmts):
    if not stmts:
        return False
    last = stmts[-1]
    if isinstance(last, (ast.Return, ast.Raise, ast.Continue, ast.Break)):
        return True
    if isinstance(last, ast.If) and last.orelse:
        return _always_exits(last.body) and _always_exits(last.orelse)
    return False


class GuardClause(ast.NodeTransformer):
    """if c: A(exits) else: B   ->   if c: A;  B      (the else of a branch that always leaves is dedented)"""

    def _rewrite_block(self, stmts):
        out = []
        for s in stmts:
            for f in ('body', 'orelse', 'finalbody'):
                b = getattr(s, f, None)
                if isinstance(b, list) and b and isinstance(b[0], ast.stmt) and not isinstance(s, (ast.ClassDef,)):
                    setattr(s, f, self._rewrite_block(b))
            if isinstance(s, ast.Try):
                for h in s.handlers:
                    h.body = self._rewrite_block(h.body)
            if isinstance(s, ast.If) and s.orelse and _always_exits(s.body) and isinstance(s.body[-1], (ast.Return, ast.Raise)):
                rest = s.orelse
                s.orelse = []
                out.append(s)
                out.extend(rest)
                continue
            out.append(s)
        return out

    def visit_FunctionDef(self, node):
        node.body = self._rewrite_block(node.body)
        return node


class RetIfExp(ast.NodeTransformer):
    """if c: return A else: return B  ->  return A if c else B ;  if c: x = A else: x = B  ->  x = A if c else B"""

    def visit_If(self, node):
        self.generic_visit(node)
        if len(node.body) == 1 and len(node.orelse) == 1:
            a, b = node.body[0], node.orelse[0]
            if isinstance(a, ast.Return) and isinstance(b, ast.Return) and a.value is not None and b.value is not None:
                return ast.Return(value=ast.IfExp(test=node.test, body=a.value, orelse=b.value))
            if isinstance(a, ast.Assign) and isinstance(b, ast.Assign) and len(a.targets) == 1 and len(b.targets) == 1 and isinstance(a.targets[0], ast.Name) \
                    and isinstance(b.targets[0], ast.Name) and a.targets[0].id == b.targets[0].id:
                return ast.Assign(targets=[ast.Name(id=a.targets[0].id, ctx=ast.Store())], value=ast.IfExp(test=node.test, body=a.value, orelse=b.value), lineno=node.lineno)
        return node


class IfExpStmt(ast.NodeTransformer):
    """x = A if c else B  ->  if c: x = A else: x = B ;  return A if c else B  ->  if c: return A else: return B"""

    def visit_Assign(self, node):
        if len(node.targets) == 1 and isinstance(node.targets[0], ast.Name) and isinstance(node.value, ast.IfExp) and self.depth > 0:
            t = node.targets[0].id
            return ast.If(test=node.value.test, body=[ast.Assign(targets=[ast.Name(id=t, ctx=ast.Store())], value=node.value.body, lineno=node.lineno)],
                          orelse=[ast.Assign(targets=[ast.Name(id=t, ctx=ast.Store())], value=node.value.orelse, lineno=node.lineno)])
        return node

    def visit_Return(self, node):
        if isinstance(node.value, ast.IfExp):
            return ast.If(test=node.value.test, body=[ast.Return(value=node.value.body)], orelse=[ast.Return(value=node.value.orelse)])
        return node

    def visit_FunctionDef(self, node):
        self.depth = getattr(self, 'depth', 0) + 1
        self.generic_visit(node)
        self.depth -= 1
        return node

    def visit_ClassDef(self, node):
        saved = getattr(self, 'depth', 0)
        self.depth = 0
        self.generic_visit(node)
        self.depth = saved
        return node

    def visit_Lambda(self, node):
        return node


class SplitAnd(ast.NodeTransformer):
    """if a and b: S  (no else)  ->  if a: if b: S"""

    def visit_If(self, node):
        self.generic_visit(node)
        if not node.orelse and isinstance(node.test, ast.BoolOp) and isinstance(node.test.op, ast.And) and len(node.test.values) == 2:
            return ast.If(test=node.test.values[0], body=[ast.If(test=node.test.values[1], body=node.body, orelse=[])], orelse=[])
        return node


class MergeIf(ast.NodeTransformer):
    """if a: if b: S  (no elses, nothing else in the outer body)  ->  if a and b: S"""

    def visit_If(self, node):
        self.generic_visit(node)
        if not node.orelse and len(node.body) == 1 and isinstance(node.body[0], ast.If) and not node.body[0].orelse:
            inner = node.body[0]
            return ast.If(test=ast.BoolOp(op=ast.And(), values=[node.test, inner.test]), body=inner.body, orelse=[])
        return node


class DeMorgan(ast.NodeTransformer):
    """not (a and b) -> not a or not b ; not (a or b) -> not a and not b"""

    def visit_UnaryOp(self, node):
        self.generic_visit(node)
        if isinstance(node.op, ast.Not) and isinstance(node.operand, ast.BoolOp):
            b = node.operand
            return ast.BoolOp(op=ast.Or() if isinstance(b.op, ast.And) else ast.And(), values=[ast.UnaryOp(op=ast.Not(), operand=v) for v in b.values])
        return node


TRANSFORMS = dict(hoistargs=HoistArgs, loop2comp=LoopToComp, comp2loop=CompToLoop, guardclause=GuardClause, retifexp=RetIfExp, ifexpstmt=IfExpStmt, splitand=SplitAnd, mergeif=MergeIf, demorgan=DeMorgan, augexpand=AugExpand, withsplit=WithSplit, kwargify=Kwargify, flipcmp=FlipCmp, ifswap=IfSwap, commute=Commute, kwrev=KwRev, retvar=RetVar, rename=Rename, notnot=NotNot)


def py_files(root):
    out = []
    for d, dn, fn in os.walk(os.path.join(root, 'src', 'gambit')):
        for f in fn:
            if f.endswith('.py'):
                out.append(os.path.relpath(os.path.join(d, f), root))
    return sorted(out)


def run_one(args):
    tname, only = args
    tmp = tempfile.mkdtemp(prefix='gsa_refac_')
    try:
        copy_sources('/repo', tmp)
        changed = 0
        for rel in py_files(tmp):
            if only is not None and rel != only:
                continue
            p = os.path.join(tmp, rel)
            src = open(p, encoding='utf-8').read()
            tree = ast.parse(src)
            new = ast.fix_missing_locations(TRANSFORMS[tname]().visit(tree))
            out = ast.unparse(new)
            if ast.dump(ast.parse(out)) != ast.dump(ast.parse(src)):
                changed += 1
                open(p, 'w', encoding='utf-8').write(out + '\n')
        if not changed:
            return (tname, only, None, None)
        alarms, undecided = {}, {}
        for prop in PROPS:
            if prop == 'C19':
                continue
            rep, und = run_property(prop, tmp, 'quick')
            viol = [o for o in rep.obs if not o.ok]
            if viol:
                alarms[prop] = [f'{o.rule} {o.construct.rsplit(".", 1)[-1]}: {o.desc[:60]} | {str(o.found)[:60]}' for o in viol[:4]]
            elif und:
                undecided[prop] = und[:140]
        return (tname, only, alarms, undecided)
    finally:
        shutil.rmtree(tmp, ignore_errors=True)


def main():
    per_file = '--per-file' in sys.argv
    names = [a for a in sys.argv[1:] if not a.startswith('--')] or list(TRANSFORMS)
    jobs = []
    files = py_files('/repo')
    for t in names:
        if per_file:
            jobs += [(t, f) for f in files]
        else:
            jobs.append((t, None))
    with ProcessPoolExecutor(max_workers=16) as ex:
        results = list(ex.map(run_one, jobs))
    na = nu = n = 0
    for t, only, alarms, und in results:
        if alarms is None:
            continue
        n += 1
        if alarms or und:
            print(f'== {t} {only or "(all files)"}')
        for p, lines in sorted(alarms.items()):
            na += 1
            print(f'   FALSE ALARM {p}')
            for l in lines:
                print(f'       {l}')
        for p, u_ in sorted(und.items()):
            nu += 1
            print(f'   undecided   {p}: {u_}')
    print(f'variants: {n}; false alarms (property x variant): {na}; analysis errors: {nu}')
    return 1 if na else 0


if __name__ == '__main__':
    raise SystemExit(main())
