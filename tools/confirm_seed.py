#!/usr/bin/env python3
"""Confirm a seeded change independently and store it under /verif/seeded/<id>/.

usage: tools/confirm_seed.py <id> <property> <dir with patch.diff + demo.py [+ notes.md]> ["what it needs to manifest"]

In a fresh scratch worktree of /repo (outside /repo and /verif, removed afterwards):
  1. demo.py on the pristine tree must exit 0
  2. patch.diff must apply; demo.py must then exit non-zero
  3. the full test suite with the patch must give the baseline result (542 passed / 48 failed / 4 skipped, same failing ids)
Only then are patch.diff, demo.py, notes.md and meta.json written to /verif/seeded/<id>/.
"""
import json
import os
import re
import shutil
import subprocess
import sys
import xml.etree.ElementTree as ET

HERE = os.path.dirname(os.path.dirname(os.path.abspath(__file__)))


def sh(cmd, cwd=None, env=None, timeout=900):
    r = subprocess.run(cmd, shell=True, cwd=cwd, env=env, capture_output=True, text=True, timeout=timeout)
    return r.returncode, (r.stdout + r.stderr)


def main():
    sid, prop, src = sys.argv[1:4]
    needs = sys.argv[4] if len(sys.argv) > 4 else ''
    wt = f'/tmp/seedchk/{sid}'
    os.makedirs('/tmp/seedchk', exist_ok=True)
    sh(f'git -C /repo worktree remove --force {wt}; rm -rf {wt}; git -C /repo worktree prune')
    rc, out = sh(f'{HERE}/tools/mk_worktree.sh {wt}')
    if rc != 0:
        print('cannot create worktree', out)
        return 2
    env = dict(os.environ, PYTHONPATH=f'{wt}/src')
    patch = os.path.join(src, 'patch.diff')
    demo = os.path.join(src, 'demo.py')
    ran = []
    try:
        rc0, out0 = sh(f'/venv/bin/python {demo}', cwd=wt, env=env)
        ran.append(f'pristine: PYTHONPATH=<worktree>/src /venv/bin/python demo.py -> exit {rc0}')
        rca, outa = sh(f'git apply {patch}', cwd=wt)
        if rca != 0:
            print('patch does not apply:', outa)
            return 1
        rc1, out1 = sh(f'/venv/bin/python {demo}', cwd=wt, env=env)
        ran.append(f'patched: PYTHONPATH=<worktree>/src /venv/bin/python demo.py -> exit {rc1}')
        rct, outt = sh(f'/venv/bin/python -m pytest -q -p no:cacheprovider --timeout=900 --continue-on-collection-errors --junitxml={wt}/junit.xml tests', cwd=wt, env=env, timeout=1800)
        summary = outt.strip().splitlines()[-1] if outt.strip() else ''
        ran.append(f'patched: pytest tests -> {summary}')
        base = set(json.load(open('/root/.vp/BASELINE.json'))['stable_pass'])
        res = {}
        for tc in ET.parse(f'{wt}/junit.xml').getroot().iter('testcase'):
            st = 'pass'
            for ch in tc:
                if ch.tag in ('failure', 'error'):
                    st = 'fail'
                elif ch.tag == 'skipped':
                    st = 'skip'
            res[f"{tc.get('classname')}::{tc.get('name')}"] = st
        broken = sorted(t for t in base if res.get(t) != 'pass')
        ok = rc0 == 0 and rc1 != 0 and not broken
        print(f'{sid}: demo pristine exit {rc0}, patched exit {rc1}; stable tests no longer passing: {len(broken)} {broken[:3]}; pytest: {summary}')
        if not ok:
            print('NOT CONFIRMED')
            print(out0[-400:])
            print(out1[-400:])
            return 1
        dst = os.path.join(HERE, 'seeded', sid)
        os.makedirs(dst, exist_ok=True)
        shutil.copyfile(patch, os.path.join(dst, 'patch.diff'))
        shutil.copyfile(demo, os.path.join(dst, 'demo.py'))
        if os.path.exists(os.path.join(src, 'notes.md')):
            shutil.copyfile(os.path.join(src, 'notes.md'), os.path.join(dst, 'notes.md'))
        files = sorted(set(re.findall(r'^\+\+\+ b/(\S+)', open(patch).read(), flags=re.M)))
        meta = dict(id=sid, property=prop, origin='independent sub-agent given only the property text and a scratch worktree',
                    files_changed=files, needs_to_manifest=needs,
                    confirmed=dict(demo_pristine_exit=rc0, demo_patched_exit=rc1, pytest_with_patch=summary, stable_tests_broken=0),
                    ran=ran, demo_output_patched=out1[-600:])
        with open(os.path.join(dst, 'meta.json'), 'w') as f:
            json.dump(meta, f, indent=1)
        print('CONFIRMED ->', dst)
        return 0
    finally:
        sh(f'git -C /repo worktree remove --force {wt}; rm -rf {wt}; git -C /repo worktree prune')


if __name__ == '__main__':
    raise SystemExit(main())
